// C41 — name and path helpers behave as specified.
#include "rc_common.h"
#include "abg-tools-utils.h"
using namespace abigail::tools_utils;
using std::string; using std::vector;
static rcc::Stats S;

static const char* ANON[] = {"__anonymous_struct__", "__anonymous_union__", "__anonymous_enum__"};
static int anon_kind(const string& c)
{ for (int k = 0; k < 3; ++k) if (c.compare(0, strlen(ANON[k]), ANON[k]) == 0) return k; return -1; }

static vector<string> comps(const string& s)
{
  vector<string> out; size_t p = 0;
  for (;;) { size_t q = s.find("::", p); if (q == string::npos) { out.push_back(s.substr(p)); break; } out.push_back(s.substr(p, q - p)); p = q + 2; }
  return out;
}
static bool ref_names_equal(const string& l, const string& r)
{
  vector<string> a = comps(l), b = comps(r);
  if (a.size() != b.size()) return false;
  for (size_t i = 0; i < a.size(); ++i)
    if (a[i] != b[i] && !(anon_kind(a[i]) >= 0 && anon_kind(a[i]) == anon_kind(b[i]))) return false;
  return true;
}
static vector<string> check_names(const string& l, const string& r)
{
  vector<string> bad;
  bool lr = decl_names_equal(l, r), rl = decl_names_equal(r, l);
  if (lr != rl) bad.push_back("names-asymmetric");
  bool anon = l.find("__anonymous_") != string::npos || r.find("__anonymous_") != string::npos;
  if (!anon && lr != (l == r)) bad.push_back("names-not-string-equality");
  if (lr != ref_names_equal(l, r)) bad.push_back("names-differs-from-reference");
  return bad;
}
static vector<string> ref_split(const string& in, const string& delims)
{
  vector<string> out; string cur; 
  auto flush = [&]() { size_t i = 0; while (i < cur.size() && isspace((unsigned char)cur[i])) ++i; cur = cur.substr(i); if (!cur.empty()) out.push_back(cur); cur.clear(); };
  for (char c : in) { if (delims.find(c) != string::npos) flush(); else cur += c; }
  flush();
  return out;
}
static vector<string> check_split(const string& in, const string& delims)
{
  vector<string> bad, res;
  split_string(in, delims, res);
  for (auto& f : res) if (f.empty()) bad.push_back("split-empty-field");
  vector<string> ref = ref_split(in, delims);
  // the implementation skips white space *before* looking for the next delimiter, so white-space characters that are
  // themselves delimiters are outside the comparison domain (generator never makes a delimiter of a space character)
  if (res != ref) bad.push_back("split-differs-from-reference");
  return bad;
}
static vector<string> check_prefix(const string& s, const string& p)
{
  vector<string> bad;
  bool bw = s.size() >= p.size() && s.compare(0, p.size(), p) == 0;
  bool ew = s.size() >= p.size() && s.compare(s.size() - p.size(), p.size(), p) == 0;
  if (string_begins_with(s, p) != bw) bad.push_back(s.empty() && p.empty() ? "begins_with-empty-empty" : "begins_with-wrong");
  if (string_ends_with(s, p) != ew) bad.push_back("ends_with-wrong");
  string suf = "<unset>";
  bool r = string_suffix(s, p, suf);
  // documented: true iff a (non-empty) suffix exists for the prefix
  bool expect = bw && s.size() > p.size();
  if (r != expect || (r && p + suf != s)) bad.push_back("string_suffix-wrong");
  return bad;
}
static bool run(const string& kind, const string& a, const string& b)
{
  vector<string> bad = kind == "names" ? check_names(a, b) : kind == "split" ? check_split(a, b) : check_prefix(a, b);
  ++S.evaluations; S.classes[kind]++;
  bool fail = false;
  for (auto& c : bad) fail |= S.fail(c, kind + "|" + hu::hex(a) + "|" + hu::hex(b));
  return fail;
}
int main(int argc, char** argv)
{
  hu::Args A(argc, argv); S.init(A);
  const char* out = A.get("--out", "/dev/null");
  if (A.has("--replay"))
    {
      vector<string> p = hu::split(A.get("--replay", ""), '|');
      string a = hu::unhex(p.size() > 1 ? p[1] : ""), b = hu::unhex(p.size() > 2 ? p[2] : "");
      vector<string> bad = p[0] == "names" ? check_names(a, b) : p[0] == "split" ? check_split(a, b) : check_prefix(a, b);
      for (auto& c : bad) printf("FAIL %s\n", c.c_str());
      printf("a=%s b=%s\n", hu::jstr(a).c_str(), hu::jstr(b).c_str());
      return bad.empty() ? 0 : 1;
    }
  string last;
  // components of well-formed qualified names
  vector<string> ids = {"a", "b", "foo", "Bar", "x1", "ns", "T<int>", "T<a, b>", "operator()", "__anonymous_struct__", "__anonymous_struct__1",
                        "__anonymous_struct__2", "__anonymous_struct__10", "__anonymous_union__", "__anonymous_union__1", "__anonymous_union__7",
                        "__anonymous_enum__", "__anonymous_enum__3", "__anonymous_enum__1", "__anonymous_", "_anonymous_struct__1", "a:b"};
  auto comp = rc::gen::elementOf(ids);
  auto qname = rc::gen::map(rc::gen::resize(5, rc::gen::container<vector<string>>(comp)), [](vector<string> v) {
    if (v.empty()) v.push_back("a");
    string s; for (size_t i = 0; i < v.size(); ++i) s += (i ? "::" : "") + v[i]; return s; });
  bool ok1 = rc::check("C41 decl_names_equal", [&]() {
    string l = *qname, r;
    int m = rcc::rint<int>(0, 4);
    if (m == 0) r = *qname;
    else
      { // derive r from l: change anon numbering / one component / drop or add a component
        vector<string> c = comps(l);
        size_t i = rcc::rint<size_t>(0, c.size());
        if (m == 1) { int k = anon_kind(c[i]); c[i] = k >= 0 ? string(ANON[k]) + std::to_string(rcc::rint<int>(0, 30)) : *comp; }
        else if (m == 2) c.erase(c.begin() + i); else c.insert(c.begin() + i, *comp);
        if (c.empty()) c.push_back("a");
        r.clear(); for (size_t j = 0; j < c.size(); ++j) r += (j ? "::" : "") + c[j];
      }
    bool anon = l.find("__anonymous_") != string::npos || r.find("__anonymous_") != string::npos;
    if (l != r && (anon || comps(l).size() > 1)) ++S.nontrivial;
    S.classes[anon ? "names:anon" : "names:plain"]++;
    S.classes[ref_names_equal(l, r) ? "names:equal" : "names:unequal"]++;
    S.sample("names " + l + " vs " + r);
    bool f = run("names", l, r); if (f) last = "names|" + hu::hex(l) + "|" + hu::hex(r);
    RC_ASSERT(!f);
  });
  vector<string> pieces = {"a", "b", "cd", " ", "  ", "\t", ",", ";", ":", "/", "::", "x y"};
  bool ok2 = rc::check("C41 split_string", [&]() {
    string in = *rcc::str_over(pieces, 12);
    string delims = *rc::gen::element<string>(",", ";", ",;", ":", "/", ",;:/");
    vector<string> ref = ref_split(in, delims);
    if (ref.size() >= 2) ++S.nontrivial;
    S.classes[ref.size() >= 2 ? "split:>=2 fields" : "split:<2 fields"]++;
    S.sample("split " + hu::jstr(in) + " by " + hu::jstr(delims), 6);
    bool f = run("split", in, delims); if (f) last = "split|" + hu::hex(in) + "|" + hu::hex(delims);
    RC_ASSERT(!f);
  });
  vector<string> pp = {"a", "b", "ab", "/", ".", "lib", ".so"};
  bool ok3 = rc::check("C41 prefix/suffix helpers", [&]() {
    string s = *rcc::str_over(pp, 6), p;
    int m = rcc::rint<int>(0, 4);
    if (m == 0) p = *rcc::str_over(pp, 4);
    else if (m == 1) p = s.substr(0, rcc::rint<size_t>(0, s.size() + 1));
    else if (m == 2) p = s.substr(rcc::rint<size_t>(0, s.size() + 1));
    else p = s;
    if (!s.empty() && !p.empty() && s != p) ++S.nontrivial;
    S.classes[s.empty() ? "prefix:empty-str" : p.empty() ? "prefix:empty-prefix" : "prefix:both-nonempty"]++;
    S.sample("prefix " + hu::jstr(s) + " / " + hu::jstr(p), 8);
    bool f = run("prefix", s, p); if (f) last = "prefix|" + hu::hex(s) + "|" + hu::hex(p);
    RC_ASSERT(!f);
  });
  S.dump(out);
  if (!(ok1 && ok2 && ok3)) { printf("RANDOM-FAIL %s\n", last.c_str()); return 1; }
  return 0;
}
