// Force-included (-include) into every TU of the `asan` variant.
// include/abg-fwd.h defines ABG_ASSERT under #ifndef, so this definition wins
// without touching the repository.  A failed assertion reports the *site*
// (file, function, asserted expression) and then calls verif_assert_fail,
// which aborts by default (tools) and is overridden with a throwing version by
// the in-process fuzz targets so that a campaign survives known sites.
#ifndef VERIF_ASSERT_H
#define VERIF_ASSERT_H
#ifdef __cplusplus
#include <cstdio>
#include <cstdlib>
#ifdef VERIF_ASSERT_STRONG
// the translation unit of a fuzz target: it provides the strong, throwing definition itself (cxx/fuzz_common.h)
void verif_assert_fail(const char* expr, const char* file, int line, const char* func);
#else
extern "C++" __attribute__((weak)) void
verif_assert_fail(const char* expr, const char* file, int line, const char* func)
{
  std::fprintf(stderr, "VERIF-ASSERT site=%s:%s expr=%s line=%d\n", file, func, expr, line);
  std::fflush(stderr);
  std::abort();
}
#endif
#define ABG_ASSERT(cond) \
  do { if (!bool(cond)) ::verif_assert_fail(#cond, __FILE__, __LINE__, __func__); } while (false)
#endif
#endif
