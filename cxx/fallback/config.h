/* config.h.  Generated from config.h.in by configure.  */
/* config.h.in.  Generated from configure.ac by autoheader.  */

/* Defined if the compiler supports the attribution visibility syntax
   __attribute__((visibility("hidden"))) */
#define HAS_GCC_VISIBILITY_ATTRIBUTE 1

/* Define to 1 if you have the <dlfcn.h> header file. */
#define HAVE_DLFCN_H 1

/* Define to 1 if dwarf.h has the DW_FORM_line_strp enumerator */
#define HAVE_DW_FORM_line_strp 1

/* Define to 1 if dwarf.h has the DW_FORM_strx enumerators */
#define HAVE_DW_FORM_strx 1

/* Define to 1 if dwarf.h has the DW_FORM_strx1 enumerator */
#define HAVE_DW_FORM_strx1 1

/* Define to 1 if dwarf.h has the DW_FORM_strx2 enumerator */
#define HAVE_DW_FORM_strx2 1

/* Define to 1 if dwarf.h has the DW_FORM_strx3 enumerator */
#define HAVE_DW_FORM_strx3 1

/* Define to 1 if dwarf.h has the DW_FORM_strx4 enumerator */
#define HAVE_DW_FORM_strx4 1

/* Define to 1 if dwarf.h has the DW_LANG_C11 enumerator */
#define HAVE_DW_LANG_C11_enumerator 1

/* Define to 1 if dwarf.h has the DW_LANG_C_plus_plus_03 enumerator */
#define HAVE_DW_LANG_C_plus_plus_03_enumerator 1

/* Define to 1 if dwarf.h has the DW_LANG_C_plus_plus_11 enumerator */
#define HAVE_DW_LANG_C_plus_plus_11_enumerator 1

/* Define to 1 if dwarf.h has the DW_LANG_C_plus_plus_14 enumerator */
#define HAVE_DW_LANG_C_plus_plus_14_enumerator 1

/* Define to 1 if dwarf.h has the DW_LANG_D enumerator */
#define HAVE_DW_LANG_D_enumerator 1

/* Define to 1 if dwarf.h has the DW_LANG_Go enumerator */
#define HAVE_DW_LANG_Go_enumerator 1

/* Define to 1 if dwarf.h has the DW_LANG_Mips_Assembler enumerator */
#define HAVE_DW_LANG_Mips_Assembler_enumerator 1

/* Define to 1 if dwarf.h has the DW_LANG_Python enumerator */
#define HAVE_DW_LANG_Python_enumerator 1

/* Define to 1 if dwarf.h has the DW_LANG_Rust enumerator */
#define HAVE_DW_LANG_Rust_enumerator 1

/* Define to 1 if dwarf.h has the DW_LANG_UPC enumerator */
#define HAVE_DW_LANG_UPC_enumerator 1

/* Defined to 1 if elf.h has EM_AARCH64 macro defined */
#define HAVE_EM_AARCH64_MACRO 1

/* Defined to 1 if elf.h has EM_TILEGX macro defined */
#define HAVE_EM_TILEGX_MACRO 1

/* Defined to 1 if elf.h has EM_TILEPR0 macro defined */
#define HAVE_EM_TILEPRO_MACRO 1

/* Define to 1 if you have the <inttypes.h> header file. */
#define HAVE_INTTYPES_H 1

/* Define to 1 if you have the <minix/config.h> header file. */
/* #undef HAVE_MINIX_CONFIG_H */

/* Defined to 1 if elf.h has R_AARCH64_ABS64 macro defined */
#define HAVE_R_AARCH64_ABS64_MACRO 1

/* Defined to 1 if elf.h has R_AARCH64_PREL32 macro defined */
#define HAVE_R_AARCH64_PREL32_MACRO 1

/* Define to 1 if you have the <stdint.h> header file. */
#define HAVE_STDINT_H 1

/* Define to 1 if you have the <stdio.h> header file. */
#define HAVE_STDIO_H 1

/* Define to 1 if you have the <stdlib.h> header file. */
#define HAVE_STDLIB_H 1

/* Define to 1 if you have the <strings.h> header file. */
#define HAVE_STRINGS_H 1

/* Define to 1 if you have the <string.h> header file. */
#define HAVE_STRING_H 1

/* Define to 1 if you have the <sys/stat.h> header file. */
#define HAVE_SYS_STAT_H 1

/* Define to 1 if you have the <sys/types.h> header file. */
#define HAVE_SYS_TYPES_H 1

/* Define to 1 if you have the <unistd.h> header file. */
#define HAVE_UNISTD_H 1

/* Define to 1 if you have the <wchar.h> header file. */
#define HAVE_WCHAR_H 1

/* Defined if libdw has the function dwarf_getalt */
#define LIBDW_HAS_DWARF_GETALT 1

/* Define to the sub-directory where libtool stores uninstalled libraries. */
#define LT_OBJDIR ".libs/"

/* Define to 1 if assertions should be disabled. */
/* #undef NDEBUG */

/* Name of package */
#define PACKAGE "libabigail"

/* Define to the address where bug reports for this package should be sent. */
#define PACKAGE_BUGREPORT "http://sourceware.org/bugzilla"

/* Define to the full name of this package. */
#define PACKAGE_NAME "libabigail"

/* Define to the full name and version of this package. */
#define PACKAGE_STRING "libabigail 2.1"

/* Define to the one symbol short name of this package. */
#define PACKAGE_TARNAME "libabigail"

/* Define to the home page for this package. */
#define PACKAGE_URL "http://sourceware.org/libabigail"

/* Define to the version of this package. */
#define PACKAGE_VERSION "2.1"

/* Define to 1 if all of the C90 standard headers exist (not just the ones
   required in a freestanding environment). This macro is provided for
   backward compatibility; new code need not use it. */
#define STDC_HEADERS 1

/* Enable extensions on AIX 3, Interix.  */
#ifndef _ALL_SOURCE
# define _ALL_SOURCE 1
#endif
/* Enable general extensions on macOS.  */
#ifndef _DARWIN_C_SOURCE
# define _DARWIN_C_SOURCE 1
#endif
/* Enable general extensions on Solaris.  */
#ifndef __EXTENSIONS__
# define __EXTENSIONS__ 1
#endif
/* Enable GNU extensions on systems that have them.  */
#ifndef _GNU_SOURCE
# define _GNU_SOURCE 1
#endif
/* Enable X/Open compliant socket functions that do not require linking
   with -lxnet on HP-UX 11.11.  */
#ifndef _HPUX_ALT_XOPEN_SOCKET_API
# define _HPUX_ALT_XOPEN_SOCKET_API 1
#endif
/* Identify the host operating system as Minix.
   This macro does not affect the system headers' behavior.
   A future release of Autoconf may stop defining this macro.  */
#ifndef _MINIX
/* # undef _MINIX */
#endif
/* Enable general extensions on NetBSD.
   Enable NetBSD compatibility extensions on Minix.  */
#ifndef _NETBSD_SOURCE
# define _NETBSD_SOURCE 1
#endif
/* Enable OpenBSD compatibility extensions on NetBSD.
   Oddly enough, this does nothing on OpenBSD.  */
#ifndef _OPENBSD_SOURCE
# define _OPENBSD_SOURCE 1
#endif
/* Define to 1 if needed for POSIX-compatible behavior.  */
#ifndef _POSIX_SOURCE
/* # undef _POSIX_SOURCE */
#endif
/* Define to 2 if needed for POSIX-compatible behavior.  */
#ifndef _POSIX_1_SOURCE
/* # undef _POSIX_1_SOURCE */
#endif
/* Enable POSIX-compatible threading on Solaris.  */
#ifndef _POSIX_PTHREAD_SEMANTICS
# define _POSIX_PTHREAD_SEMANTICS 1
#endif
/* Enable extensions specified by ISO/IEC TS 18661-5:2014.  */
#ifndef __STDC_WANT_IEC_60559_ATTRIBS_EXT__
# define __STDC_WANT_IEC_60559_ATTRIBS_EXT__ 1
#endif
/* Enable extensions specified by ISO/IEC TS 18661-1:2014.  */
#ifndef __STDC_WANT_IEC_60559_BFP_EXT__
# define __STDC_WANT_IEC_60559_BFP_EXT__ 1
#endif
/* Enable extensions specified by ISO/IEC TS 18661-2:2015.  */
#ifndef __STDC_WANT_IEC_60559_DFP_EXT__
# define __STDC_WANT_IEC_60559_DFP_EXT__ 1
#endif
/* Enable extensions specified by ISO/IEC TS 18661-4:2015.  */
#ifndef __STDC_WANT_IEC_60559_FUNCS_EXT__
# define __STDC_WANT_IEC_60559_FUNCS_EXT__ 1
#endif
/* Enable extensions specified by ISO/IEC TS 18661-3:2015.  */
#ifndef __STDC_WANT_IEC_60559_TYPES_EXT__
# define __STDC_WANT_IEC_60559_TYPES_EXT__ 1
#endif
/* Enable extensions specified by ISO/IEC TR 24731-2:2010.  */
#ifndef __STDC_WANT_LIB_EXT2__
# define __STDC_WANT_LIB_EXT2__ 1
#endif
/* Enable extensions specified by ISO/IEC 24747:2009.  */
#ifndef __STDC_WANT_MATH_SPEC_FUNCS__
# define __STDC_WANT_MATH_SPEC_FUNCS__ 1
#endif
/* Enable extensions on HP NonStop.  */
#ifndef _TANDEM_SOURCE
# define _TANDEM_SOURCE 1
#endif
/* Enable X/Open extensions.  Define to 500 only if necessary
   to make mbstate_t available.  */
#ifndef _XOPEN_SOURCE
/* # undef _XOPEN_SOURCE */
#endif


/* Version number of package */
#define VERSION "2.1"

/* Defined if user enables and system has the libctf library */
/* #undef WITH_CTF */

/* compile the deb package support in abipkgdiff */
#define WITH_DEB 1

/* compile support of debugging abidw --abidiff */
/* #undef WITH_DEBUG_SELF_COMPARISON */

/* compile support of debugging type canonicalization while using abidw
   --debug-tc */
/* #undef WITH_DEBUG_TYPE_CANONICALIZATION */

/* compile the rpm package support in abipkgdiff */
/* #undef WITH_RPM */

/* has rpm/zstd support */
/* #undef WITH_RPM_ZSTD */

/* compile support of abilint --show-type-use */
/* #undef WITH_SHOW_TYPE_USE_IN_ABILINT */

/* compile the GNU tar archive support in abipkgdiff */
#define WITH_TAR 1

/* Number of bits in a file offset, on hosts where this is settable. */
/* #undef _FILE_OFFSET_BITS */

/* Define for large files, on AIX-style hosts. */
/* #undef _LARGE_FILES */
