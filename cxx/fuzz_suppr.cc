// C25: bytes -> suppression specification / KMI whitelist -> applied late (diff + report of pre-loaded corpus pairs) and early
// (re-reading a small ELF with the suppressions).
#include <sstream>
#include <fstream>
#include <vector>
#include <string>
#include <cstdint>
#include <unistd.h>
#include <sys/mman.h>
#include "abg-ir.h"
#include "abg-corpus.h"
#include "abg-suppression.h"
#include "abg-comparison.h"
#include "abg-dwarf-reader.h"
#include "abg-tools-utils.h"
#include "fuzz_common.h"

using namespace abigail;

extern "C" size_t LLVMFuzzerMutate(uint8_t* data, size_t size, size_t max_size);

static ir::environment_sptr env;
static std::vector<std::pair<corpus_sptr, corpus_sptr> > pairs_;
static std::string data_dir;

static const char* VALUES[] = {"fn0", "fn1", "var0", "st0", "un0", "^fn.*", ".*", "(", "[", "a{2,1}", "\\", "*", "^$", "",
			       "end", "0", "-1", "99999999999999999999999", "offset_of(m0)", "offset_after(m1)", "offset_of(",
			       "{8, end}", "{{0, 8}, {16, end}}", "{{{{", "}", "{a, {b, {c}}}", "yes", "no", "all", "bogus",
			       "function-subtype-change", "added-function", "deleted-variable", "struct", "enum", "typedef",
			       "direct", "pointer", "reference-or-pointer", "'0 int", "'1 /^.*$/", "types.h", "lib.so",
			       "VERS_1", "fn0, fn1, var0", "\"quoted value\"", "a;b", "# not a comment",
			       // tuples and lists of every small arity, where strings, pairs or pairs of pairs are expected
			       "{}", "{ }", "{a}", "{0}", "{,}", "{a,}", "{{}}", "{{}, {}}", "{{a}}", "{{0, end}}", "{{a, b, c}}",
			       "{a, b, c}", "{0, 8, end}", ",", "a,", ",a", "{0, end}, {8, end}", "{offset_of(m0), end}"};
static const char* PROPS[] = {"name", "name_regexp", "name_not_regexp", "symbol_name", "symbol_name_regexp", "symbol_name_not_regexp",
			      "symbol_version", "symbol_version_regexp", "type_kind", "accessed_through", "source_location_not_in",
			      "source_location_not_regexp", "has_data_member_inserted_at", "has_data_member_inserted_between",
			      "has_data_members_inserted_between", "changed_enumerators", "change_kind", "return_type_name",
			      "return_type_regexp", "parameter", "type_name", "type_name_regexp", "file_name_regexp",
			      "file_name_not_regexp", "soname_regexp", "soname_not_regexp", "drop", "drop_artifact", "label",
			      "allow_other_aliases", "unknown_property"};
static const char* SECTIONS[] = {"[suppress_type]", "[suppress_function]", "[suppress_variable]", "[suppress_file]",
				 "[abi_whitelist]", "[symbols_whitelist]", "[bogus]", "[suppress_type", "[]"};

extern "C" size_t
LLVMFuzzerCustomMutator(uint8_t* data, size_t size, size_t max_size, unsigned int seed)
{
  unsigned r = seed;
  auto rnd = [&r]() {r = r * 1103515245u + 12345u; return (r >> 8) & 0xffffff;};
  std::string s((const char*) data, size);
  unsigned op = rnd() % 10;
  if (op < 3)
    return LLVMFuzzerMutate(data, size, max_size);
  std::vector<size_t> starts;
  starts.push_back(0);
  for (size_t i = 0; i < s.size(); ++i)
    if (s[i] == '\n')
      starts.push_back(i + 1);
  size_t at = starts[rnd() % starts.size()];
  size_t eol = s.find('\n', at);
  if (eol == std::string::npos) eol = s.size();
  #define PICK(a) a[rnd() % (sizeof(a) / sizeof(a[0]))]
  if (op < 5)
    {
      // replace the value of the property on that line
      size_t eq = s.find('=', at);
      if (eq != std::string::npos && eq < eol)
	s.replace(eq + 1, eol - eq - 1, std::string(" ") + PICK(VALUES));
      else
	s.insert(at, std::string("  ") + PICK(PROPS) + " = " + PICK(VALUES) + "\n");
    }
  else if (op < 7)
    s.insert(at, std::string("  ") + PICK(PROPS) + (rnd() % 4 ? std::string(" = ") + PICK(VALUES) : std::string("")) + "\n");
  else if (op == 7)
    s.insert(at, std::string(PICK(SECTIONS)) + "\n");
  else if (op == 8)
    s.erase(at, eol - at + (eol < s.size()));
  else
    s.insert(at, s.substr(at, eol - at) + "\n");
  if (s.size() > max_size)
    s.resize(max_size);
  memcpy(data, s.data(), s.size());
  return s.size();
}

extern "C" int
LLVMFuzzerInitialize(int*, char***)
{
  const char* d = getenv("VERIF_FUZZ_DATA");
  if (!d)
    {
      fprintf(stderr, "VERIF_FUZZ_DATA not set\n");
      exit(2);
    }
  data_dir = d;
  env.reset(new ir::environment);
  std::vector<char**> di;
  for (int k = 0; k < 3; ++k)
    {
      elf_reader::status st;
      char a[512], b[512];
      snprintf(a, sizeof a, "%s/p%d_v1.so", d, k);
      snprintf(b, sizeof b, "%s/p%d_v2.so", d, k);
      if (access(a, R_OK))
	continue;
      corpus_sptr c1 = dwarf_reader::read_corpus_from_elf(a, di, env.get(), true, st);
      corpus_sptr c2 = dwarf_reader::read_corpus_from_elf(b, di, env.get(), true, st);
      if (c1 && c2)
	pairs_.push_back(std::make_pair(c1, c2));
    }
  if (pairs_.empty())
    {
      fprintf(stderr, "no corpus pair could be loaded from %s\n", d);
      exit(2);
    }
  return 0;
}

extern "C" int
LLVMFuzzerTestOneInput(const uint8_t* data, size_t size)
{
  verif::counters& c = verif::ctr();
  if (++c.execs % 500 == 0)
    c.dump();
  std::string text((const char*) data, size);
  try
    {
      suppr::suppressions_type supprs;
      {
	std::istringstream in(text);
	suppr::read_suppressions(in, supprs);
      }
      // the same bytes as a KMI whitelist file
      char path[512];
      snprintf(path, sizeof path, "%s/verif-wl-%d", getenv("VERIF_FUZZ_TMP") ? getenv("VERIF_FUZZ_TMP") : "/tmp", (int) getpid());
      {
	std::ofstream o(path);
	o << text;
      }
      std::vector<std::string> wl(1, path);
      suppr::suppressions_type wls = tools_utils::gen_suppr_spec_from_kernel_abi_whitelists(wl);
      if (!supprs.empty() || !wls.empty())
	++c.nontrivial;
      for (int round = 0; round < 2; ++round)
	{
	  const suppr::suppressions_type& s = round ? wls : supprs;
	  if (s.empty())
	    continue;
	  // late: diff + report
	  // one corpus pair per execution (they take turns): applying every specification to all three pairs cost two thirds
	  // of the executions a campaign can afford
	  for (size_t k = (c.execs / 2) % pairs_.size(), once = 0; once < 1; ++once)
	    {
	      comparison::diff_context_sptr ctxt(new comparison::diff_context);
	      ctxt->add_suppressions(s);
	      if (c.execs % 2)
		ctxt->show_leaf_changes_only(true);
	      comparison::corpus_diff_sptr d = comparison::compute_diff(pairs_[k].first, pairs_[k].second, ctxt);
	      if (d)
		{
		  std::ostringstream rep;
		  d->has_net_changes();
		  d->report(rep);
		}
	    }
	  // early: read a binary with the suppressions in a fresh environment
	  if (c.execs % 8 == 0)
	    {
	      ir::environment_sptr e2(new ir::environment);
	      std::vector<char**> di;
	      std::string p = data_dir + "/p0_v1.so";
	      dwarf_reader::read_context_sptr rc = dwarf_reader::create_read_context(p, di, e2.get(), true);
	      dwarf_reader::add_read_context_suppressions(*rc, s);
	      elf_reader::status st;
	      corpus_sptr corp = dwarf_reader::read_corpus_from_elf(*rc, st);
	      (void) corp;
	    }
	}
    }
  catch (const verif::assert_failure& e)
    {
      verif::on_assert(e);
    }
  return 0;
}
