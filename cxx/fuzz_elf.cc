// C34: bytes -> file -> dwarf_reader::read_corpus_from_elf + lookup_symbol_from_elf (abisym's path).
#include <sstream>
#include <fstream>
#include <vector>
#include <string>
#include <cstdint>
#include <cstring>
#include <unistd.h>
#include <elf.h>
#include "abg-ir.h"
#include "abg-corpus.h"
#include "abg-dwarf-reader.h"
#include "abg-writer.h"
#include "fuzz_common.h"

using namespace abigail;

extern "C" size_t LLVMFuzzerMutate(uint8_t* data, size_t size, size_t max_size);

// Targeted corruption of a 64-bit little-endian ELF image: section header fields and words of the sections libabigail reads.
extern "C" size_t
LLVMFuzzerCustomMutator(uint8_t* data, size_t size, size_t max_size, unsigned int seed)
{
  unsigned r = seed;
  auto rnd = [&r]() {r = r * 1103515245u + 12345u; return (r >> 8) & 0xffffff;};
  if (size < sizeof(Elf64_Ehdr) || memcmp(data, ELFMAG, SELFMAG) || data[EI_CLASS] != ELFCLASS64 || rnd() % 10 < 2)
    return LLVMFuzzerMutate(data, size, max_size);
  Elf64_Ehdr eh;
  memcpy(&eh, data, sizeof eh);
  if (eh.e_shoff == 0 || eh.e_shentsize != sizeof(Elf64_Shdr) || eh.e_shnum == 0
      || eh.e_shoff + (uint64_t) eh.e_shnum * sizeof(Elf64_Shdr) > size)
    return LLVMFuzzerMutate(data, size, max_size);
  std::vector<unsigned> interesting;
  for (unsigned i = 1; i < eh.e_shnum; ++i)
    {
      Elf64_Shdr sh;
      memcpy(&sh, data + eh.e_shoff + i * sizeof sh, sizeof sh);
      switch (sh.sh_type)
	{
	case SHT_SYMTAB: case SHT_DYNSYM: case SHT_HASH: case SHT_GNU_HASH: case SHT_GNU_versym: case SHT_GNU_verdef:
	case SHT_GNU_verneed: case SHT_DYNAMIC: case SHT_STRTAB: case SHT_RELA: case SHT_PROGBITS:
	  interesting.push_back(i);
	}
    }
  if (interesting.empty())
    return LLVMFuzzerMutate(data, size, max_size);
  unsigned idx = interesting[rnd() % interesting.size()];
  Elf64_Shdr sh;
  size_t shpos = eh.e_shoff + idx * sizeof sh;
  memcpy(&sh, data + shpos, sizeof sh);
  static const uint64_t VALS[] = {0, 1, 2, 3, 7, 8, 0xff, 0x100, 0xffff, 0x7fffffff, 0x80000000u, 0xffffffffu, 0xfffffffffffffff0ull,
				  0xffffffffffffffffull};
  uint64_t v = rnd() % 3 ? VALS[rnd() % (sizeof(VALS) / sizeof(VALS[0]))] : rnd();
  unsigned what = rnd() % 12;
  if (what < 5)
    {
      switch (what)
	{
	case 0: sh.sh_size = v; break;
	case 1: sh.sh_link = (uint32_t) v; break;
	case 2: sh.sh_info = (uint32_t) v; break;
	case 3: sh.sh_entsize = v; break;
	default: sh.sh_offset = v; break;
	}
      memcpy(data + shpos, &sh, sizeof sh);
    }
  else if (sh.sh_offset < size && sh.sh_size >= 4 && sh.sh_type != SHT_NOBITS)
    {
      // overwrite one aligned 32-bit word (hash buckets / chains, bloom words, symbol fields, version indexes, DWARF bytes)
      uint64_t span = sh.sh_size;
      if (sh.sh_offset + span > size)
	span = size - sh.sh_offset;
      if (span >= 4)
	{
	  size_t at = sh.sh_offset + (rnd() % (span / 4)) * 4;
	  uint32_t w = (uint32_t) v;
	  if (what == 11)
	    {
	      memcpy(&w, data + at, 4);
	      w += (rnd() % 3) - 1 ? 1 : 0xffffffffu;	// off by one
	    }
	  memcpy(data + at, &w, 4);
	}
    }
  return size;
}

extern "C" int
LLVMFuzzerTestOneInput(const uint8_t* data, size_t size)
{
  verif::counters& c = verif::ctr();
  if (++c.execs % 500 == 0)
    c.dump();
  char path[512];
  snprintf(path, sizeof path, "%s/verif-elf-%d", getenv("VERIF_FUZZ_TMP") ? getenv("VERIF_FUZZ_TMP") : "/tmp", (int) getpid());
  {
    std::ofstream o(path, std::ios::binary | std::ios::trunc);
    o.write((const char*) data, size);
  }
  try
    {
      ir::environment_sptr env(new ir::environment);
      std::vector<char**> di;
      elf_reader::status st = elf_reader::STATUS_UNKNOWN;
      corpus_sptr corp = dwarf_reader::read_corpus_from_elf(path, di, env.get(), /*load_all_types=*/(c.execs % 2) == 0, st);
      if (corp)
	{
	  ++c.nontrivial;
	  std::ostringstream out;
	  xml_writer::write_context_sptr w = xml_writer::create_write_context(env.get(), out);
	  xml_writer::write_corpus(*w, corp, 0);
	}
      // abisym's path
      static const char* NAMES[] = {"fn0", "var0", "fn0_al", "main", "zzq", "_Z1gPK1D"};
      for (unsigned k = 0; k < 2; ++k)
	{
	  std::vector<elf_symbol_sptr> syms;
	  dwarf_reader::lookup_symbol_from_elf(env.get(), path, NAMES[(c.execs + k) % 6], /*demangle=*/false, syms);
	}
    }
  catch (const verif::assert_failure& e)
    {
      verif::on_assert(e);
    }
  return 0;
}
