// Shared stats / failure bookkeeping for the rapidcheck harnesses.
#ifndef RC_COMMON_H
#define RC_COMMON_H
#include <rapidcheck.h>
#include <fstream>
#include <map>
#include <set>
#include <string>
#include <vector>
#include "harness_util.h"
#include <csignal>
#include <unistd.h>
namespace rcc
{
// the case being executed, for the crash handler (a library crash inside a property is a failure of that case)
static char g_current[1 << 16];
// every case gets a 20 s watchdog: a hang is reported as a crash of that case (sig=14)
inline void set_current(const std::string& w) { strncpy(g_current, w.c_str(), sizeof(g_current) - 1); alarm(20); }
inline void crash_handler(int sig)
{
  char buf[64]; int n = snprintf(buf, sizeof buf, "\nCRASH-CASE sig=%d ", sig);
  (void) !write(1, buf, n); (void) !write(1, g_current, strlen(g_current)); (void) !write(1, "\n", 1);
  _exit(70);
}
inline void install_crash_handler() { signal(SIGSEGV, crash_handler); signal(SIGABRT, crash_handler); signal(SIGBUS, crash_handler); signal(SIGFPE, crash_handler); signal(SIGALRM, crash_handler); }

struct Stats
{
  long evaluations = 0, nontrivial = 0;
  std::map<std::string, long> classes, failcount;
  std::map<std::string, std::string> witness;
  std::vector<std::string> samples;
  std::set<std::string> ignore;
  // record a failure of class c with replay text w; returns true when the class is not ignored
  bool fail(const std::string& c, const std::string& w)
  {
    ++failcount[c];
    if (!witness.count(c) || w.size() <= witness[c].size()) witness[c] = w;
    return !ignore.count(c);
  }
  void sample(const std::string& s, size_t cap = 4) { if (samples.size() < cap) samples.push_back(s); }
  void dump(const char* out, bool exhaustive = false)
  {
    std::ofstream f(out);
    f << "{\"evaluations\":" << evaluations << ",\"nontrivial\":" << nontrivial
      << ",\"exhaustive\":" << (exhaustive ? "true" : "false") << ",\"classes\":{";
    bool first = true;
    for (auto& c : classes) { f << (first ? "" : ",") << hu::jstr(c.first) << ":" << c.second; first = false; }
    f << "},\"failcount\":{";
    first = true;
    for (auto& c : failcount) { f << (first ? "" : ",") << hu::jstr(c.first) << ":" << c.second; first = false; }
    f << "},\"witness\":{";
    first = true;
    for (auto& c : witness) { f << (first ? "" : ",") << hu::jstr(c.first) << ":" << hu::jstr(c.second); first = false; }
    f << "},\"samples\":[";
    for (size_t i = 0; i < samples.size(); ++i) f << (i ? "," : "") << hu::jstr(samples[i]);
    f << "]}\n";
  }
  void init(const hu::Args& A)
  { for (auto& c : hu::split(A.get("--ignore", ""), ',')) if (!c.empty()) ignore.insert(c); }
};
// strings over a weighted alphabet
template <typename T> inline T rint(T lo, T hi) { return *rc::gen::resize(100, rc::gen::inRange<T>(lo, hi)); }
inline rc::Gen<std::string> str_over(const std::vector<std::string>& pieces, int maxn)
{
  // inRange collapses towards its lower bound at small sizes: pin the element generator at the nominal size
  return rc::gen::map(rc::gen::resize(maxn, rc::gen::container<std::vector<int>>(rc::gen::resize(100, rc::gen::inRange<int>(0, pieces.size())))),
                      [=](const std::vector<int>& v) { std::string s; for (int i : v) s += pieces[i]; return s; });
}
}
#endif
