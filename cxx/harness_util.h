// tiny helpers shared by the C++ harnesses
#ifndef HARNESS_UTIL_H
#define HARNESS_UTIL_H
#include <cstring>
#include <cstdio>
#include <string>
#include <vector>
namespace hu
{
struct Args
{
  int argc; char** argv;
  Args(int c, char** v) : argc(c), argv(v) {}
  bool has(const char* k) const
  { for (int i = 1; i < argc; ++i) if (!strcmp(argv[i], k)) return true; return false; }
  const char* get(const char* k, const char* dflt) const
  { for (int i = 1; i + 1 < argc; ++i) if (!strcmp(argv[i], k)) return argv[i + 1]; return dflt; }
};
inline std::vector<std::string> split(const std::string& s, char sep)
{
  std::vector<std::string> out; std::string cur;
  for (char c : s) { if (c == sep) { out.push_back(cur); cur.clear(); } else cur += c; }
  out.push_back(cur);
  return out;
}
inline std::string jstr(const std::string& s)
{
  std::string o = "\"";
  for (unsigned char c : s)
    {
      if (c == '"' || c == '\\') { o += '\\'; o += c; }
      else if (c == '\n') o += "\\n";
      else if (c == '\t') o += "\\t";
      else if (c == '\r') o += "\\r";
      else if (c < 0x20 || c >= 0x7f) { char b[8]; snprintf(b, sizeof b, "\\u%04x", c); o += b; }
      else o += c;
    }
  return o + "\"";
}
inline std::string hex(const std::string& s)
{
  std::string o; char b[4];
  for (unsigned char c : s) { snprintf(b, sizeof b, "%02x", c); o += b; }
  return o;
}
inline std::string unhex(const std::string& s)
{
  std::string o;
  for (size_t i = 0; i + 1 < s.size(); i += 2) o += char(strtol(s.substr(i, 2).c_str(), 0, 16));
  return o;
}
}
#endif
