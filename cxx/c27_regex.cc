// C27 (a) — regex::generate_from_strings / escape: the generated pattern matches exactly the given strings.
#include "rc_common.h"
#include <sstream>
#include "abg-regex.h"
using namespace abigail;
using std::string; using std::vector;
static rcc::Stats S;

static string check(const vector<string>& strs, const vector<string>& probes, string& culprit)
{
  if (strs.empty()) return "";
  string pat = regex::generate_from_strings(strs);
  regex::regex_t_sptr r = regex::compile(pat);
  if (!r) { culprit = pat; return "pattern-does-not-compile"; }
  std::set<string> set(strs.begin(), strs.end());
  for (auto& p : probes)
    if (regex::match(r, p) != (set.count(p) > 0))
      { culprit = p; return set.count(p) ? "member-not-matched" : "non-member-matched"; }
  return "";
}
static string enc(const vector<string>& a, const vector<string>& b)
{
  string s;
  for (size_t i = 0; i < a.size(); ++i) s += (i ? "," : "") + hu::hex(a[i]);
  s += "|";
  for (size_t i = 0; i < b.size(); ++i) s += (i ? "," : "") + hu::hex(b[i]);
  return s;
}
int main(int argc, char** argv)
{
  hu::Args A(argc, argv); S.init(A);
  const char* out = A.get("--out", "/dev/null");
  if (A.has("--replay"))
    {
      vector<string> parts = hu::split(A.get("--replay", ""), '|'), a, b;
      for (auto& h : hu::split(parts[0], ',')) if (!h.empty()) a.push_back(hu::unhex(h));
      if (parts.size() > 1) for (auto& h : hu::split(parts[1], ',')) b.push_back(hu::unhex(h));
      string culprit, cls = check(a, b, culprit);
      if (!cls.empty()) printf("FAIL %s\nculprit=%s\n", cls.c_str(), hu::jstr(culprit).c_str());
      return cls.empty() ? 0 : 1;
    }
  vector<string> pieces = {"a", "b", "foo", "_", "1", "^", ".", "[", "]", "$", "(", ")", "|", "*", "+", "?", "{", "}", "\\", "-", " ", "[a-z]", ".*", "é"};
  string last;
  bool ok = rc::check("C27a generate_from_strings", [&]() {
    auto one = rc::gen::map(rcc::str_over(pieces, 6), [](string s) { return s.empty() ? string("x") : s; });
    vector<string> strs = *rc::gen::resize(6, rc::gen::container<vector<string>>(one));
    if (strs.empty()) strs.push_back(*one);
    vector<string> probes = strs;
    int np = rcc::rint<int>(1, 12);
    for (int i = 0; i < np; ++i)
      {
        string s = strs[rcc::rint<size_t>(0, strs.size())];
        int m = rcc::rint<int>(0, 6);
        size_t pos = s.empty() ? 0 : rcc::rint<size_t>(0, s.size());
        if (m == 0) s += *rc::gen::elementOf(pieces);
        else if (m == 1) s = *rc::gen::elementOf(pieces) + s;
        else if (m == 2 && !s.empty()) s.erase(pos, 1);
        else if (m == 3 && !s.empty()) s[pos] = 'Z';
        else if (m == 4) s = *one;
        else if (strs.size() > 1) s = strs[0] + strs[1];
        probes.push_back(s);
      }
    probes.push_back("");
    bool meta = false;
    for (auto& s : strs) meta |= s.find_first_of("^.[]$()|*+?{}\\") != string::npos;
    ++S.evaluations;
    if (meta && strs.size() >= 2) ++S.nontrivial;
    S.classes[meta ? "has-metachar" : "plain"]++;
    S.sample(enc(strs, probes));
    string culprit, cls = check(strs, probes, culprit);
    bool f = !cls.empty() && S.fail(cls, enc(strs, probes));
    if (f) last = enc(strs, probes);
    RC_ASSERT(!f);
  });
  S.dump(out);
  if (!ok) { printf("RANDOM-FAIL %s\n", last.c_str()); return 1; }
  return 0;
}
