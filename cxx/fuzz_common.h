// Shared by the libFuzzer targets: assertion capture, known-site filtering, counters.
#ifndef FUZZ_COMMON_H
#define FUZZ_COMMON_H
#include <cstdio>
#include <cstdlib>
#include <cstring>
#include <string>
#include <set>
#include <stdexcept>
#include <unistd.h>

namespace verif
{
struct assert_failure : std::exception
{
  std::string site;
  assert_failure(const std::string& s) : site(s) {}
  const char* what() const noexcept override {return site.c_str();}
};

inline std::set<std::string>&
ignored()
{
  static std::set<std::string> s;
  static bool init = false;
  if (!init)
    {
      init = true;
      if (const char* e = getenv("VERIF_IGNORE"))
	{
	  std::string cur;
	  for (const char* p = e; ; ++p)
	    {
	      if (*p == ';' || !*p) { if (!cur.empty()) s.insert(cur); cur.clear(); if (!*p) break; }
	      else cur += *p;
	    }
	}
    }
  return s;
}

inline std::string& last_assert_function() {static std::string s; return s;}

struct counters
{
  unsigned long execs = 0, nontrivial = 0, asserts_ignored = 0;
  const char* path = nullptr;
  void dump()
  {
    if (!path) path = getenv("VERIF_STATS");
    if (!path) return;
    char name[512];
    snprintf(name, sizeof name, "%s.%d", path, (int) getpid());
    if (FILE* f = fopen(name, "w"))
      {
	fprintf(f, "%lu %lu %lu\n", execs, nontrivial, asserts_ignored);
	fclose(f);
      }
  }
};
inline counters& ctr()
{
  static counters c;
  static bool registered = false;
  if (!registered)
    {
      registered = true;
      atexit([]() {ctr().dump();});
    }
  return c;
}

// called by the target when it caught an assertion: known site -> keep fuzzing, unknown -> report and die
inline void
on_assert(const assert_failure& e)
{
  if (ignored().count(e.site))
    {
      ++ctr().asserts_ignored;
      return;
    }
  fprintf(stderr, "VERIF-FINDING key=%s\nVERIF-FINDING function=%s\n", e.site.c_str(), last_assert_function().c_str());
  fflush(stderr);
  ctr().dump();
  __builtin_trap();
}
}

// strong definition: overrides the weak aborting one of cxx/verif_assert.h
void
verif_assert_fail(const char* expr, const char* file, int, const char* func)
{
  const char* base = strrchr(file, '/');
  // keyed by source file (see vlib/fuzzprop.py:key_of); the function is kept for the report
  (void) expr;
  std::string site = std::string("assert:") + (base ? base + 1 : file);
  verif::last_assert_function() = func;
  throw verif::assert_failure(site);
}
#endif
