// C32: the worker queue under a harness-owned schedule.
//
// Every pthread call of abg-workers.cc goes through verif_hooks::hooks() (src/verif-hooks.h).  This harness installs a
// deterministic scheduler there: worker threads are real threads, but only one of them runs at a time; each hooked call
// is a scheduling point at which the scheduler -- driven by a schedule, i.e. a sequence of choices -- picks who runs next,
// which waiter a cond_signal wakes, and whether a waiter wakes up spuriously.  Mutex owners and condition-variable
// waiter sets are kept by the harness.  A state in which no thread is enabled while some thread has not finished is a
// deadlock.
//
// modes:   --dfs W T BOUND MAXRUNS      all schedules of W workers x T tasks with at most BOUND preemptions (stateless DFS)
//          --random W T RUNS SEED       random schedules
//          --replay W T "c0,c1,..."     one schedule
// output:  --out stats.json ; exit 1 + witness in the stats on a failure.
#define VERIF_HOOKS_NO_REDEFINE
#include "verif-hooks.h"
#include <pthread.h>
#include <cstdio>
#include <cstdlib>
#include <cstring>
#include <map>
#include <set>
#include <string>
#include <vector>
#include <fstream>
#include "abg-workers.h"
#include "harness_util.h"

using std::string;
using std::vector;

namespace
{
enum st {RUNNABLE, WANT_MUTEX, WAIT_COND, JOINING, DONE};

struct thr
{
  pthread_t real;
  int id;
  st state;
  pthread_mutex_t* want_mutex;		// WANT_MUTEX: the mutex it needs
  pthread_cond_t* cond;			// WAIT_COND
  pthread_mutex_t* cond_mutex;
  int join_target;
  void* (*fn)(void*);
  void* arg;
  pthread_cond_t wake;			// real condvar used to resume this thread
  bool in_worker_loop;
};

pthread_mutex_t big = PTHREAD_MUTEX_INITIALIZER;	// real lock protecting the scheduler state
vector<thr*> threads;
std::map<pthread_mutex_t*, int> owner;			// modeled mutexes
int current = -1;
__thread int self_id = -1;

// the schedule
vector<unsigned> choices;		// choices made in this run
vector<unsigned> branching;		// number of options at each choice point
vector<unsigned> prefix;		// forced choices (DFS / replay)
bool random_mode = false;
unsigned rstate = 1;
int preemptions = 0, bound = 1 << 30, spurious = 0, spurious_bound = 1;
bool deadlock = false;
string deadlock_desc;
long sched_points = 0;
// --fine: also yield *before* the effect of unlock / cond_wait / signal / broadcast and *after* a lock is acquired, so that
// code between two hooked calls (a predicate evaluated just before cond_wait, a flag stored just after unlock) can be
// separated from them by another thread
bool g_fine = false;

// reporting state (a deadlock is reported from whichever thread detects it: the run cannot be unwound)
const char* g_out = "/dev/stdout";
long g_runs = 0, g_nontrivial = 0;
int g_W = 1, g_T = 1;
bool g_exhausted = false;
vector<string> g_samples;
string fmt_choices();

void
finish(const string& failure, const string& witness)
{
  std::ofstream o(g_out);
  o << "{\"workers\": " << g_W << ", \"tasks\": " << g_T << ", \"runs\": " << g_runs << ", \"nontrivial\": " << g_nontrivial
    << ", \"exhausted\": " << (g_exhausted ? "true" : "false") << ", \"sched_points\": " << sched_points
    << ", \"failure\": " << hu::jstr(failure) << ", \"witness\": " << hu::jstr(witness) << ", \"samples\": [";
  for (size_t i = 0; i < g_samples.size(); ++i)
    o << (i ? ", " : "") << hu::jstr(g_samples[i]);
  o << "]}\n";
  o.close();
  fflush(0);
  _exit(failure.empty() ? 0 : 1);
}

unsigned
choose(unsigned n)
{
  if (n <= 1)
    return 0;
  unsigned c;
  size_t i = choices.size();
  if (i < prefix.size())
    c = prefix[i] % n;
  else if (random_mode)
    {
      rstate = rstate * 1103515245u + 12345u;
      c = (rstate >> 16) % n;
    }
  else
    c = 0;
  choices.push_back(c);
  branching.push_back(n);
  return c;
}

bool
enabled(const thr* t)
{
  switch (t->state)
    {
    case RUNNABLE: return true;
    case WANT_MUTEX: return owner.find(t->want_mutex) == owner.end() || owner[t->want_mutex] < 0;
    case WAIT_COND: return false;
    case JOINING: return threads[t->join_target]->state == DONE;
    case DONE: return false;
    }
  return false;
}

// pick the next thread to run and hand the (virtual) CPU over; called with `big` held by the current thread
void wake(thr* t);

void
reschedule(bool current_can_continue)
{
  ++sched_points;
  vector<int> en;
  for (size_t i = 0; i < threads.size(); ++i)
    if (enabled(threads[i]))
      en.push_back((int) i);
  // spurious wake-ups: a cond waiter may be made runnable (it then needs its mutex back)
  vector<int> waiters;
  for (size_t i = 0; i < threads.size(); ++i)
    if (threads[i]->state == WAIT_COND)
      waiters.push_back((int) i);
  if (en.empty())
    {
      bool all_done = true;
      for (size_t i = 0; i < threads.size(); ++i)
	if (threads[i]->state != DONE)
	  all_done = false;
      if (all_done)
	return;
      if (!waiters.empty() && preemptions < bound)
	{
	  // nothing is enabled: the only way forward is a spurious wake-up, which real condition variables allow but
	  // which no correct program may rely on.  This is a deadlock of the protocol.
	}
      deadlock = true;
      deadlock_desc = "no thread enabled:";
      static const char* NAMES[] = {"runnable", "wants-mutex", "waits-on-condvar", "joining", "done"};
      for (size_t i = 0; i < threads.size(); ++i)
	{
	  char b[64];
	  snprintf(b, sizeof b, " t%zu=%s", i, NAMES[threads[i]->state]);
	  deadlock_desc += b;
	}
      ++g_runs;
      finish("deadlock: " + deadlock_desc, fmt_choices());
    }
  int next;
  bool cur_enabled = current_can_continue && current >= 0 && enabled(threads[current]);
  if (cur_enabled && preemptions >= bound)
    next = current;
  else
    {
      // option 0 is "the current thread goes on" when it can: the DFS explores it first, and a preemption is any other choice
      vector<int> opts;
      if (cur_enabled)
	opts.push_back(current);
      for (size_t i = 0; i < en.size(); ++i)
	if (!cur_enabled || en[i] != current)
	  opts.push_back(en[i]);
      // a condition-variable waiter may also wake up spuriously (bounded per run): encoded as extra options
      size_t nreal = opts.size();
      if (spurious < spurious_bound)
	for (size_t i = 0; i < waiters.size(); ++i)
	  opts.push_back(-1 - waiters[i]);
      unsigned c = choose((unsigned) opts.size());
      if (c >= nreal)
	{
	  ++spurious;
	  wake(threads[-1 - opts[c]]);
	  reschedule(current_can_continue);
	  return;
	}
      next = opts[c];
      if (cur_enabled && next != current)
	++preemptions;
    }
  if (next == current && current == self_id)
    return;
  current = next;
  pthread_cond_signal(&threads[next]->wake);
}

// block the calling thread until it is scheduled again
void
wait_my_turn()
{
  thr* me = threads[self_id];
  while (current != self_id && !deadlock)
    pthread_cond_wait(&me->wake, &big);
  if (deadlock)
    {
      pthread_mutex_unlock(&big);
      // a deadlocked run cannot be unwound: report from here
      throw 1;
    }
}

void
acquire(pthread_mutex_t* m)
{
  thr* me = threads[self_id];
  me->state = WANT_MUTEX;
  me->want_mutex = m;
  reschedule(true);
  wait_my_turn();
  owner[m] = self_id;
  me->state = RUNNABLE;
}

int
h_mutex_lock(pthread_mutex_t* m)
{
  pthread_mutex_lock(&big);
  acquire(m);
  if (g_fine)
    {
      reschedule(true);
      wait_my_turn();
    }
  pthread_mutex_unlock(&big);
  return 0;
}

int
h_mutex_unlock(pthread_mutex_t* m)
{
  pthread_mutex_lock(&big);
  if (g_fine)
    {
      reschedule(true);
      wait_my_turn();
    }
  owner[m] = -1;
  reschedule(true);
  wait_my_turn();
  pthread_mutex_unlock(&big);
  return 0;
}

int
h_cond_wait(pthread_cond_t* c, pthread_mutex_t* m)
{
  pthread_mutex_lock(&big);
  thr* me = threads[self_id];
  if (g_fine)
    {
      reschedule(true);
      wait_my_turn();
    }
  owner[m] = -1;
  me->state = WAIT_COND;
  me->cond = c;
  me->cond_mutex = m;
  reschedule(false);
  wait_my_turn();
  // woken (state was set to WANT_MUTEX by the signaller and the mutex was free when we got scheduled)
  owner[m] = self_id;
  me->state = RUNNABLE;
  pthread_mutex_unlock(&big);
  return 0;
}

void
wake(thr* t)
{
  t->state = WANT_MUTEX;
  t->want_mutex = t->cond_mutex;
}

int
h_cond_signal(pthread_cond_t* c)
{
  pthread_mutex_lock(&big);
  if (g_fine)
    {
      reschedule(true);
      wait_my_turn();
    }
  vector<thr*> w;
  for (size_t i = 0; i < threads.size(); ++i)
    if (threads[i]->state == WAIT_COND && threads[i]->cond == c)
      w.push_back(threads[i]);
  if (!w.empty())
    wake(w[choose((unsigned) w.size())]);		// signal wakes exactly one waiter, any of them
  reschedule(true);
  wait_my_turn();
  pthread_mutex_unlock(&big);
  return 0;
}

int
h_cond_broadcast(pthread_cond_t* c)
{
  pthread_mutex_lock(&big);
  if (g_fine)
    {
      reschedule(true);
      wait_my_turn();
    }
  for (size_t i = 0; i < threads.size(); ++i)
    if (threads[i]->state == WAIT_COND && threads[i]->cond == c)
      wake(threads[i]);
  reschedule(true);
  wait_my_turn();
  pthread_mutex_unlock(&big);
  return 0;
}

void*
trampoline(void* p)
{
  thr* me = (thr*) p;
  self_id = me->id;
  pthread_mutex_lock(&big);
  try
    {
      wait_my_turn();
      pthread_mutex_unlock(&big);
      me->fn(me->arg);
      pthread_mutex_lock(&big);
      me->state = DONE;
      reschedule(false);
      pthread_mutex_unlock(&big);
    }
  catch (int)
    {
    }
  return 0;
}

int
h_create(pthread_t* t, const pthread_attr_t*, void* (*f)(void*), void* arg)
{
  pthread_mutex_lock(&big);
  thr* n = new thr();
  n->id = (int) threads.size();
  n->state = RUNNABLE;
  n->fn = f;
  n->arg = arg;
  pthread_cond_init(&n->wake, 0);
  threads.push_back(n);
  pthread_create(&n->real, 0, trampoline, n);
  *t = n->real;
  reschedule(true);
  wait_my_turn();
  pthread_mutex_unlock(&big);
  return 0;
}

int
h_join(pthread_t t, void**)
{
  pthread_mutex_lock(&big);
  thr* me = threads[self_id];
  int target = -1;
  for (size_t i = 0; i < threads.size(); ++i)
    if (pthread_equal(threads[i]->real, t))
      target = (int) i;
  me->state = JOINING;
  me->join_target = target;
  reschedule(false);
  wait_my_turn();
  me->state = RUNNABLE;
  pthread_mutex_unlock(&big);
  pthread_join(t, 0);
  return 0;
}

// ---- the system under test is driven from here
struct counting_task : abigail::workers::task
{
  int performed;
  counting_task() : performed(0) {}
  virtual void perform()
  {
    ++performed;
    // a scheduling point inside the task
    pthread_mutex_lock(&big);
    reschedule(true);
    try {wait_my_turn();} catch (int) {return;}
    pthread_mutex_unlock(&big);
  }
};

struct notifier : abigail::workers::queue::task_done_notify
{
  int calls, reentrant;
  bool inside;
  notifier() : calls(0), reentrant(0), inside(false) {}
  virtual void operator()(const abigail::workers::task_sptr&)
  {
    if (inside)
      ++reentrant;
    inside = true;
    ++calls;
    pthread_mutex_lock(&big);
    reschedule(true);
    try {wait_my_turn();} catch (int) {inside = false; return;}
    pthread_mutex_unlock(&big);
    inside = false;
  }
};

struct result {string failure;};

result
one_run(int W, int T)
{
  result res;
  // reset the scheduler
  for (size_t i = 0; i < threads.size(); ++i)
    delete threads[i];
  threads.clear();
  owner.clear();
  choices.clear();
  branching.clear();
  preemptions = 0;
  spurious = 0;
  deadlock = false;
  thr* main_thr = new thr();
  main_thr->id = 0;
  main_thr->state = RUNNABLE;
  main_thr->real = pthread_self();
  pthread_cond_init(&main_thr->wake, 0);
  threads.push_back(main_thr);
  self_id = 0;
  current = 0;

  notifier n;
  vector<std::shared_ptr<counting_task> > tasks;
  bool returned = false;
  size_t ndone = 0;
  std::set<abigail::workers::task*> done_set;
  bool dup = false;
  try
    {
      abigail::workers::queue q((unsigned) W, n);
      for (int i = 0; i < T; ++i)
	{
	  tasks.push_back(std::shared_ptr<counting_task>(new counting_task));
	  q.schedule_task(tasks.back());
	}
      q.wait_for_workers_to_complete();
      returned = true;
      const vector<abigail::workers::task_sptr>& d = q.get_completed_tasks();
      ndone = d.size();
      for (size_t i = 0; i < d.size(); ++i)
	if (!done_set.insert(d[i].get()).second)
	  dup = true;
      // the destructor of q runs do_bring_workers_down() again: it must be a no-op now
    }
  catch (int)
    {
    }
  if (deadlock)
    {
      res.failure = "deadlock: " + deadlock_desc;
      return res;
    }
  if (!returned)
    res.failure = "wait_for_workers_to_complete did not return";
  for (int i = 0; i < T && res.failure.empty(); ++i)
    {
      if (tasks[i]->performed != 1)
	{
	  char b[96];
	  snprintf(b, sizeof b, "task %d performed %d times", i, tasks[i]->performed);
	  res.failure = b;
	}
      else if (!done_set.count(tasks[i].get()))
	res.failure = "a scheduled task is missing from the completed tasks";
    }
  if (res.failure.empty() && (dup || ndone != (size_t) T))
    res.failure = "completed tasks are not a permutation of the scheduled tasks";
  if (res.failure.empty() && n.calls != T)
    res.failure = "notifier calls != number of tasks";
  if (res.failure.empty() && n.reentrant)
    res.failure = "notifier ran concurrently with itself";
  return res;
}

string
fmt_choices()
{
  string s;
  for (size_t i = 0; i < choices.size(); ++i)
    {
      char b[16];
      snprintf(b, sizeof b, "%s%u", i ? "," : "", choices[i]);
      s += b;
    }
  return s;
}
} // end anonymous namespace

int
main(int argc, char** argv)
{
  hu::Args args(argc, argv);
  verif_hooks::table& h = verif_hooks::hooks();
  h.mutex_lock = h_mutex_lock;
  h.mutex_unlock = h_mutex_unlock;
  h.cond_wait = h_cond_wait;
  h.cond_signal = h_cond_signal;
  h.cond_broadcast = h_cond_broadcast;
  h.create = h_create;
  h.join = h_join;
  g_out = args.get("--out", "/dev/stdout");
  g_fine = args.has("--fine");
  long& runs = g_runs;
  long& nontrivial = g_nontrivial;
  string failure, witness;
  bool& exhausted = g_exhausted;
  vector<string>& samples = g_samples;
  int& W = g_W;
  int& T = g_T;
  if (args.has("--dfs"))
    {
      int k = 0;
      for (int i = 1; i < argc; ++i) if (!strcmp(argv[i], "--dfs")) k = i;
      W = atoi(argv[k + 1]); T = atoi(argv[k + 2]); bound = atoi(argv[k + 3]);
      long maxruns = atol(argv[k + 4]);
      prefix.clear();
      while (runs < maxruns)
	{
	  result r = one_run(W, T);
	  ++runs;
	  if (preemptions > 0)
	    ++nontrivial;
	  if (samples.size() < 3 && preemptions > 0)
	    samples.push_back(fmt_choices());
	  if (!r.failure.empty())
	    {
	      failure = r.failure;
	      witness = fmt_choices();
	      break;
	    }
	  // backtrack: last choice point that still has an unexplored option
	  int i = (int) choices.size() - 1;
	  while (i >= 0 && choices[i] + 1 >= branching[i])
	    --i;
	  if (i < 0)
	    {
	      exhausted = true;
	      break;
	    }
	  prefix.assign(choices.begin(), choices.begin() + i);
	  prefix.push_back(choices[i] + 1);
	}
    }
  else if (args.has("--random"))
    {
      int k = 0;
      for (int i = 1; i < argc; ++i) if (!strcmp(argv[i], "--random")) k = i;
      W = atoi(argv[k + 1]); T = atoi(argv[k + 2]);
      long n = atol(argv[k + 3]);
      unsigned seed = (unsigned) atol(argv[k + 4]);
      random_mode = true;
      for (long i = 0; i < n; ++i)
	{
	  rstate = seed * 2654435761u + (unsigned) i * 40503u + 1;
	  prefix.clear();
	  result r = one_run(W, T);
	  ++runs;
	  if (preemptions > 0)
	    ++nontrivial;
	  if (samples.size() < 3)
	    samples.push_back(fmt_choices().substr(0, 120));
	  if (!r.failure.empty())
	    {
	      failure = r.failure;
	      witness = fmt_choices();
	      break;
	    }
	}
    }
  else if (args.has("--replay"))
    {
      int k = 0;
      for (int i = 1; i < argc; ++i) if (!strcmp(argv[i], "--replay")) k = i;
      W = atoi(argv[k + 1]); T = atoi(argv[k + 2]);
      vector<string> f = hu::split(argv[k + 3], ',');
      for (size_t i = 0; i < f.size(); ++i)
	if (!f[i].empty())
	  prefix.push_back((unsigned) atoi(f[i].c_str()));
      result r = one_run(W, T);
      ++runs;
      failure = r.failure;
      witness = fmt_choices();
    }
  finish(failure, witness);
}
