// C39 — INI configurations survive write/read round trips.
#include "rc_common.h"
#include <sstream>
#include "abg-ini.h"
using namespace abigail::ini;
using std::string; using std::vector;
static rcc::Stats S;

// ---- normal form of a configuration as a printable string.  Inside a tuple, adjacent string/list items are one list
// (the textual grammar `{a, b, c}` cannot tell them apart); an empty string value and a missing value are the same.
static string nf_value(const property_value_sptr& v);
static string nf_items(const vector<property_value_sptr>& items)
{
  string out; vector<string> run;
  auto flush = [&]() { if (run.empty()) return; out += "L("; for (auto& s : run) out += hu::jstr(s) + ";"; out += ")"; run.clear(); };
  for (auto& it : items)
    {
      if (string_property_value_sptr s = is_string_property_value(it)) run.push_back(s->as_string());
      else if (list_property_value_sptr l = is_list_property_value(it)) for (auto& x : l->get_content()) run.push_back(x);
      else if (tuple_property_value_sptr t = is_tuple_property_value(it)) { flush(); out += "T{" + nf_items(t->get_value_items()) + "}"; }
    }
  flush();
  return out;
}
static string nf_prop(const property_sptr& p)
{
  string out = "P" + hu::jstr(p->get_name()) + "=";
  if (simple_property_sptr s = is_simple_property(p))
    out += s->has_empty_value() ? "EMPTY" : "S" + hu::jstr(s->get_value()->as_string());
  else if (list_property_sptr l = is_list_property(p))
    { out += "L("; for (auto& x : l->get_value()->get_content()) out += hu::jstr(x) + ";"; out += ")"; }
  else if (tuple_property_sptr t = is_tuple_property(p))
    out += "T{" + nf_items(t->get_value()->get_value_items()) + "}";
  return out;
}
static string nf_config(const config& c)
{
  string out;
  for (auto& s : c.get_sections())
    {
      out += "[" + hu::jstr(s->get_name()) + "]";
      for (auto& p : s->get_properties()) out += nf_prop(p) + "\n";
    }
  return out;
}

// ---- a tiny description language for generated configurations (also the replay format):
//   sections separated by \x1e ; name \x1f prop \x1f prop ... ; prop = name \x1d valuedesc
//   valuedesc: "E" empty | "S"+text | "L"+item\x1c item... | "T"+tupledesc   tupledesc = nested with ( ) and \x1c
// list_property_value declares no destructor in the public header, so it cannot be destroyed outside the library
// (its pimpl type is incomplete here): allocate and deliberately never delete.
static list_property_value_sptr mklist(const vector<string>& l)
{ return list_property_value_sptr(new list_property_value(l), [](list_property_value*) {}); }
struct TV { int kind; string s; vector<string> l; vector<TV> t; };  // 0 string 1 list 2 tuple
static property_value_sptr build(const TV& v)
{
  if (v.kind == 0) return property_value_sptr(new string_property_value(v.s));
  if (v.kind == 1) return mklist(v.l);
  vector<property_value_sptr> items;
  for (auto& x : v.t) items.push_back(build(x));
  return property_value_sptr(new tuple_property_value(items));
}
struct PD { string name; int kind; TV v; };  // kind: 0 empty, 1 simple, 2 list, 3 tuple
struct SD { string name; vector<PD> props; };
static void make_config(const vector<SD>& sd, config& c)
{
  config::sections_type secs;
  for (auto& s : sd)
    {
      config::properties_type props;
      for (auto& p : s.props)
        {
          if (p.kind == 0) props.push_back(property_sptr(new simple_property(p.name)));
          else if (p.kind == 1) props.push_back(property_sptr(new simple_property(p.name, string_property_value_sptr(new string_property_value(p.v.s)))));
          else if (p.kind == 2) props.push_back(property_sptr(new list_property(p.name, mklist(p.v.l))));
          else props.push_back(property_sptr(new tuple_property(p.name, is_tuple_property_value(build(p.v)))));
        }
      secs.push_back(config::section_sptr(new config::section(s.name, props)));
    }
  c.set_sections(secs);
}
static string part1(const vector<SD>& sd, string& text)
{
  config c; make_config(sd, c);
  std::ostringstream o;
  if (!write_config(c, o)) return "write-failed";
  text = o.str();
  if (getenv("C39_PRINT")) { printf("written text:\n%s\n", text.c_str()); fflush(stdout); }
  std::istringstream in(text);
  config back;
  if (!read_config(in, back)) return "reread-failed";
  if (nf_config(c) != nf_config(back)) return "roundtrip-differs";
  return "";
}
// nf strings are JSON-quoted; look inside each quoted string
static bool needs_escape(const string& nf)
{
  size_t p = 0;
  while ((p = nf.find('"', p)) != string::npos)
    {
      size_t q = p + 1; string v;
      while (q < nf.size() && nf[q] != '"') { if (nf[q] == '\\') { v += nf[q + 1] == 'n' ? '\n' : nf[q + 1] == 't' ? '\t' : nf[q + 1]; if (nf[q + 1] == 'u') q += 4; q += 2; } else v += nf[q++]; }
      if (!v.empty() && (v.find_first_of("{},;#\n\\") != string::npos || strchr("=[] \t", v[0]) || strchr(" \t", v[v.size() - 1])))
        return true;
      p = q + 1;
    }
  return false;
}
static string part2(const string& text, bool& parsed, string& w)
{
  std::istringstream in(text);
  config c1;
  read_config(in, c1); parsed = !c1.get_sections().empty();
  if (!parsed) return "";
  std::ostringstream o;
  if (!write_config(c1, o)) return "write-failed";
  w = o.str();
  std::istringstream in2(w);
  config c2;
  if (!read_config(in2, c2)) return "reread-failed";
  if (nf_config(c1) != nf_config(c2))
    // the known root cause "the writer emits every string verbatim" is recognised on the *first-read configuration*: some
    // string in it cannot be read back unescaped (delimiter/comment/backslash/newline inside, or a leading '=', '[', ']',
    // or leading/trailing blank)
    return needs_escape(nf_config(c1)) ? "text-roundtrip-differs:escapes" : "text-roundtrip-differs";
  return "";
}

// ---- generators
static const vector<string> NAMEP = {"a", "b", "name", "_x", "1", "-", ".", "(", ")", "*", "^", "$", "é"};
static const vector<string> VALP = {"a", "b", "zz", " ", "  ", "=", "[", "]", "(", ")", "*", "^f.*$", "/x", "é", "0x10", "-1", "\t"};
static string trim(const string& s) { size_t a = s.find_first_not_of(" \t"), b = s.find_last_not_of(" \t"); return a == string::npos ? "" : s.substr(a, b - a + 1); }
static rc::Gen<string> gname() { return rc::gen::map(rcc::str_over(NAMEP, 4), [](string s) { return s.empty() ? string("n") : s; }); }
// a value cannot *start* with a delimiter ('=', '[', ']' are value characters only after the first one)
static rc::Gen<string> gval() { return rc::gen::map(rcc::str_over(VALP, 5), [](string s) {
  s = trim(s); while (!s.empty() && strchr("=[] \t", s[0])) s.erase(0, 1); return s.empty() ? string("v") : s; }); }
static TV gtuple(int depth)
{
  TV t; t.kind = 2;
  int n = rcc::rint<int>(0, 4);
  for (int i = 0; i < n; ++i)
    {
      int k = rcc::rint<int>(0, depth < 2 ? 3 : 2);
      TV x;
      if (k == 0) { x.kind = 0; x.s = *gval(); }
      else if (k == 1) { x.kind = 1; int m = rcc::rint<int>(2, 4); for (int j = 0; j < m; ++j) x.l.push_back(*gval()); }
      else x = gtuple(depth + 1);
      t.t.push_back(x);
    }
  return t;
}
static string show(const TV& v)
{
  if (v.kind == 0) return "S" + hu::hex(v.s);
  if (v.kind == 1) { string o = "L"; for (auto& x : v.l) o += hu::hex(x) + "."; return o; }
  string o = "T("; for (auto& x : v.t) o += show(x) + ","; return o + ")";
}
static TV parse_tv(const string& s, size_t& p)
{
  TV v;
  if (s[p] == 'S') { ++p; size_t q = p; while (q < s.size() && isxdigit(s[q])) ++q; v.kind = 0; v.s = hu::unhex(s.substr(p, q - p)); p = q; }
  else if (s[p] == 'L') { ++p; v.kind = 1; while (p < s.size() && (isxdigit(s[p]) || s[p] == '.')) { size_t q = s.find('.', p); v.l.push_back(hu::unhex(s.substr(p, q - p))); p = q + 1; } }
  else { p += 2; v.kind = 2; while (s[p] != ')') { v.t.push_back(parse_tv(s, p)); ++p; } ++p; }
  return v;
}
static string show_sd(const vector<SD>& sd)
{
  string o;
  for (auto& s : sd) { o += "[" + hu::hex(s.name) + "]"; for (auto& p : s.props) o += hu::hex(p.name) + ":" + std::to_string(p.kind) + ":" + show(p.v) + ";"; }
  return o;
}
static vector<SD> parse_sd(const string& t)
{
  vector<SD> out; size_t p = 0;
  while (p < t.size() && t[p] == '[')
    {
      size_t q = t.find(']', p); SD s; s.name = hu::unhex(t.substr(p + 1, q - p - 1)); p = q + 1;
      while (p < t.size() && t[p] != '[')
        {
          PD pd; size_t c = t.find(':', p); pd.name = hu::unhex(t.substr(p, c - p)); pd.kind = t[c + 1] - '0'; p = c + 3;
          pd.v = parse_tv(t, p); ++p;  // skip ';'
          s.props.push_back(pd);
        }
      out.push_back(s);
    }
  return out;
}
// grammar-based text generator (part 2)
static const vector<string> TOK = {"[s]\n", "[suppress_type]\n", "[a b]\n", "p = v\n", "q\n", "  name = foo bar \n", "l = a, b\n", "l2 = a,b , c\n",
                                   "t = {1, end}\n", "t2 = {{x,y},{z}}\n", "t3 = {a, {b, c}, d}\n", "t4 = {}\n", "r = ^f.*$\n", "e = a=b\n", "k = [x]\n",
                                   ";comment\n", "# c\n", "p = v ; trailing\n", "\n", "  ", "é = é\n", "x = 1\n[s2]\ny = 2\n",
                                   // garbage and escapes (lower weight: each appears once)
                                   "[", "]", "=", ",", "{", "}", "\\", "\\,", "\\{", "\\\n", "a\\;b = c\\#d\n", "\t", "p = {a,\n", "p = }\n", "= v\n"};
int main(int argc, char** argv)
{
  hu::Args A(argc, argv); S.init(A); rcc::install_crash_handler();
  const char* out = A.get("--out", "/dev/null");
  if (A.has("--replay"))
    {
      string r = A.get("--replay", "");
      string cls, aux; bool parsed;
      if (r.compare(0, 2, "1|") == 0) cls = part1(parse_sd(r.substr(2)), aux);
      else cls = part2(hu::unhex(r.substr(2)), parsed, aux);
      if (!cls.empty()) printf("FAIL %s\n", cls.c_str());
      printf("text:\n%s\n", aux.c_str());
      return cls.empty() ? 0 : 1;
    }
  string last;
  bool ok1 = rc::check("C39 part 1: config -> text -> config", [&]() {
    vector<SD> sd;
    int ns = rcc::rint<int>(1, 4);
    bool has_tuple = false, has_list = false, nested = false;
    for (int i = 0; i < ns; ++i)
      {
        SD s; s.name = *gname();
        int np = rcc::rint<int>(1, 5);
        for (int j = 0; j < np; ++j)
          {
            PD p; p.name = *gname(); p.kind = rcc::rint<int>(0, 4);
            if (p.kind == 1) { p.v.kind = 0; p.v.s = *gval(); }
            else if (p.kind == 2) { p.v.kind = 1; int m = rcc::rint<int>(2, 5); for (int k = 0; k < m; ++k) p.v.l.push_back(*gval()); has_list = true; }
            else if (p.kind == 3) { p.v = gtuple(0); has_tuple = true; for (auto& x : p.v.t) nested |= x.kind == 2; }
            s.props.push_back(p);
          }
        sd.push_back(s);
      }
    ++S.evaluations;
    if (has_tuple || has_list) ++S.nontrivial;
    S.classes[nested ? "p1:nested-tuple" : has_tuple ? "p1:tuple" : has_list ? "p1:list" : "p1:simple-only"]++;
    string text;
    rcc::set_current("1|" + show_sd(sd));
    string cls = part1(sd, text);
    S.sample("config->text: " + text);
    bool f = !cls.empty() && S.fail(cls, "1|" + show_sd(sd));
    if (f) last = "1|" + show_sd(sd);
    RC_ASSERT(!f);
  });
  bool ok2 = rc::check("C39 part 2: text -> config -> text -> config", [&]() {
    string text = *rcc::str_over(TOK, 30);
    if (rcc::rint<int>(0, 3) > 0) text = "[s]\n" + text;
    bool parsed = false; string w;
    rcc::set_current("2|" + hu::hex(text));
    string cls = part2(text, parsed, w);
    ++S.evaluations;
    if (parsed) ++S.nontrivial;
    S.classes[!parsed ? "p2:rejected-or-empty" : text.find('\\') != string::npos ? "p2:parsed-with-backslash" : "p2:parsed"]++;
    if (parsed) S.sample("text: " + text, 8);
    bool f = !cls.empty() && S.fail(cls, "2|" + hu::hex(text));
    if (f) last = "2|" + hu::hex(text);
    RC_ASSERT(!f);
  });
  S.dump(out);
  if (!(ok1 && ok2)) { printf("RANDOM-FAIL %s\n", last.c_str()); return 1; }
  return 0;
}
