/* LD_PRELOAD shim for C36: fails the K-th write-like call (write, writev, pwrite, close, fsync, fdatasync) made on the
   output descriptor -- fd 1, or the descriptor obtained by opening the path in VERIF_FAULT_PATH -- with the errno in
   VERIF_FAULT_ERRNO.  K = 0 only counts.  The number of calls seen is written to VERIF_FAULT_LOG at exit. */
#define _GNU_SOURCE
#include <dlfcn.h>
#include <errno.h>
#include <fcntl.h>
#include <stdarg.h>
#include <stdio.h>
#include <stdlib.h>
#include <string.h>
#include <sys/uio.h>
#include <unistd.h>

static int target_fd = -2, k_fail = -1, err_no = 28, calls = 0, injected = 0;
static const char *path, *logp;

static void init(void)
{
  if (k_fail >= 0) return;
  const char *k = getenv("VERIF_FAULT_K"), *e = getenv("VERIF_FAULT_ERRNO");
  k_fail = k ? atoi(k) : 0;
  err_no = e ? atoi(e) : ENOSPC;
  path = getenv("VERIF_FAULT_PATH");
  logp = getenv("VERIF_FAULT_LOG");
  if (!path || !*path) target_fd = 1;
}

static void log_it(void)
{
  if (!logp) return;
  int (*ropen)(const char *, int, ...) = dlsym(RTLD_NEXT, "open");
  ssize_t (*rwrite)(int, const void *, size_t) = dlsym(RTLD_NEXT, "write");
  int (*rclose)(int) = dlsym(RTLD_NEXT, "close");
  int fd = ropen(logp, O_WRONLY | O_CREAT | O_TRUNC, 0644);
  if (fd < 0) return;
  char buf[64];
  int n = snprintf(buf, sizeof buf, "%d %d\n", calls, injected);
  rwrite(fd, buf, n);
  rclose(fd);
}

__attribute__((constructor)) static void ctor(void) { init(); atexit(log_it); }
__attribute__((destructor)) static void dtor(void) { log_it(); }

static int hit(int fd)
{
  init();
  if (fd != target_fd || fd < 0) return 0;
  calls++;
  if (k_fail > 0 && calls == k_fail) { injected = 1; errno = err_no; return 1; }
  return 0;
}

static void note_open(const char *p, int fd)
{
  init();
  if (fd >= 0 && path && *path && p && strcmp(p, path) == 0) target_fd = fd;
}

int open(const char *p, int flags, ...)
{
  static int (*real)(const char *, int, ...);
  if (!real) real = dlsym(RTLD_NEXT, "open");
  mode_t m = 0;
  if (flags & (O_CREAT | O_TMPFILE)) { va_list ap; va_start(ap, flags); m = va_arg(ap, int); va_end(ap); }
  int fd = real(p, flags, m);
  note_open(p, fd);
  return fd;
}
int open64(const char *p, int flags, ...)
{
  static int (*real)(const char *, int, ...);
  if (!real) real = dlsym(RTLD_NEXT, "open64");
  mode_t m = 0;
  if (flags & (O_CREAT | O_TMPFILE)) { va_list ap; va_start(ap, flags); m = va_arg(ap, int); va_end(ap); }
  int fd = real(p, flags, m);
  note_open(p, fd);
  return fd;
}
int openat(int dfd, const char *p, int flags, ...)
{
  static int (*real)(int, const char *, int, ...);
  if (!real) real = dlsym(RTLD_NEXT, "openat");
  mode_t m = 0;
  if (flags & (O_CREAT | O_TMPFILE)) { va_list ap; va_start(ap, flags); m = va_arg(ap, int); va_end(ap); }
  int fd = real(dfd, p, flags, m);
  note_open(p, fd);
  return fd;
}
FILE *fopen(const char *p, const char *mode)
{
  static FILE *(*real)(const char *, const char *);
  if (!real) real = dlsym(RTLD_NEXT, "fopen");
  FILE *f = real(p, mode);
  if (f) note_open(p, fileno(f));
  return f;
}
FILE *fopen64(const char *p, const char *mode)
{
  static FILE *(*real)(const char *, const char *);
  if (!real) real = dlsym(RTLD_NEXT, "fopen64");
  FILE *f = real(p, mode);
  if (f) note_open(p, fileno(f));
  return f;
}
ssize_t write(int fd, const void *b, size_t n)
{
  static ssize_t (*real)(int, const void *, size_t);
  if (!real) real = dlsym(RTLD_NEXT, "write");
  if (hit(fd)) return -1;
  return real(fd, b, n);
}
ssize_t writev(int fd, const struct iovec *v, int n)
{
  static ssize_t (*real)(int, const struct iovec *, int);
  if (!real) real = dlsym(RTLD_NEXT, "writev");
  if (hit(fd)) return -1;
  return real(fd, v, n);
}
ssize_t pwrite(int fd, const void *b, size_t n, off_t o)
{
  static ssize_t (*real)(int, const void *, size_t, off_t);
  if (!real) real = dlsym(RTLD_NEXT, "pwrite");
  if (hit(fd)) return -1;
  return real(fd, b, n, o);
}
int fsync(int fd)
{
  static int (*real)(int);
  if (!real) real = dlsym(RTLD_NEXT, "fsync");
  if (hit(fd)) return -1;
  return real(fd);
}
int close(int fd)
{
  static int (*real)(int);
  if (!real) real = dlsym(RTLD_NEXT, "close");
  if (hit(fd)) { real(fd); if (fd == target_fd) target_fd = -2; return -1; }
  if (fd == target_fd && fd != 1) target_fd = -2;
  return real(fd);
}
