// C33: bytes -> ABIXML reader (+ writer and self diff when a corpus results).  Built with
// clang++ -fsanitize=fuzzer,address,undefined against the `asan` libabigail.a.
#include <sstream>
#include <fstream>
#include <vector>
#include <string>
#include <cstdint>
#include "abg-ir.h"
#include "abg-corpus.h"
#include "abg-reader.h"
#include "abg-writer.h"
#include "abg-comparison.h"
#include "fuzz_common.h"

using namespace abigail;

extern "C" size_t LLVMFuzzerMutate(uint8_t* data, size_t size, size_t max_size);

static const char* DICT[] = {"type-id-1", "type-id-2", "type-id-999", "", "yes", "no", "0", "-1", "18446744073709551615", "64",
			     "2.1", "2", "1.0", "9999.9999", "private", "public", "protected", "bogus", "global-binding",
			     "weak-binding", "func-type", "object-type", "default-visibility", "infinite", "unknown", "void",
			     "variadic parameter type", "__anonymous_struct__", "const", "lvalue", "rvalue"};

static void
find_quoted(const std::string& s, std::vector<std::pair<size_t, size_t> >& out)
{
  for (size_t i = 0; i < s.size(); ++i)
    if (s[i] == '\'')
      {
	size_t j = s.find('\'', i + 1);
	if (j == std::string::npos) break;
	out.push_back(std::make_pair(i + 1, j - i - 1));
	i = j;
      }
}

static void
lines_of(const std::string& s, std::vector<std::pair<size_t, size_t> >& out)
{
  size_t b = 0;
  for (size_t i = 0; i <= s.size(); ++i)
    if (i == s.size() || s[i] == '\n')
      {
	out.push_back(std::make_pair(b, i - b + (i < s.size())));
	b = i + 1;
      }
}

extern "C" size_t
LLVMFuzzerCustomMutator(uint8_t* data, size_t size, size_t max_size, unsigned int seed)
{
  unsigned r = seed;
  auto rnd = [&r]() {r = r * 1103515245u + 12345u; return (r >> 8) & 0xffffff;};
  std::string s((const char*) data, size);
  unsigned op = rnd() % 10;
  if (op < 3 || size < 16)
    return LLVMFuzzerMutate(data, size, max_size);
  std::vector<std::pair<size_t, size_t> > q, ln;
  if (op < 7)
    {
      find_quoted(s, q);
      if (q.empty())
	return LLVMFuzzerMutate(data, size, max_size);
      std::pair<size_t, size_t> a = q[rnd() % q.size()];
      std::string repl;
      unsigned how = rnd() % 4;
      if (how == 0)
	repl = DICT[rnd() % (sizeof(DICT) / sizeof(DICT[0]))];
      else if (how == 1)
	{
	  std::pair<size_t, size_t> b = q[rnd() % q.size()];	// another attribute value of the document (e.g. another id)
	  repl = s.substr(b.first, b.second);
	}
      else if (how == 2)
	repl = s.substr(a.first, a.second) + s.substr(a.first, a.second);
      else
	{
	  char buf[32];
	  snprintf(buf, sizeof buf, "%u", rnd() % 3 ? rnd() % 200 : rnd());
	  repl = buf;
	}
      s.replace(a.first, a.second, repl);
    }
  else
    {
      lines_of(s, ln);
      if (ln.size() < 3)
	return LLVMFuzzerMutate(data, size, max_size);
      std::pair<size_t, size_t> a = ln[1 + rnd() % (ln.size() - 1)];
      unsigned how = rnd() % 3;
      if (how == 0)
	s.erase(a.first, a.second);					// delete an element line
      else if (how == 1)
	s.insert(a.first, s.substr(a.first, a.second));			// duplicate it (duplicate ids)
      else
	{
	  std::pair<size_t, size_t> b = ln[1 + rnd() % (ln.size() - 1)];	// move it
	  std::string l = s.substr(a.first, a.second);
	  s.erase(a.first, a.second);
	  s.insert(b.first <= s.size() ? b.first : s.size(), l);
	}
    }
  if (s.size() > max_size)
    s.resize(max_size);
  memcpy(data, s.data(), s.size());
  return s.size();
}

extern "C" int
LLVMFuzzerTestOneInput(const uint8_t* data, size_t size)
{
  verif::counters& c = verif::ctr();
  if (++c.execs % 2000 == 0)
    c.dump();
  std::string doc((const char*) data, size);
  try
    {
      ir::environment_sptr env(new ir::environment);
      std::istringstream in(doc);
      // the root element decides which of the three entry points abidiff / abilint would use for this file
      size_t r = 0;
      while ((r = doc.find('<', r)) != std::string::npos && r + 1 < doc.size() && (doc[r + 1] == '?' || doc[r + 1] == '!'))
	++r;
      if (r != std::string::npos && doc.compare(r, 10, "<abi-instr") == 0)
	{
	  translation_unit_sptr tu = xml_reader::read_translation_unit_from_istream(&in, env.get());
	  if (tu)
	    {
	      ++c.nontrivial;
	      std::ostringstream out;
	      xml_writer::write_context_sptr w = xml_writer::create_write_context(env.get(), out);
	      xml_writer::write_translation_unit(*w, *tu, 0);
	      comparison::diff_context_sptr dctxt(new comparison::diff_context);
	      comparison::translation_unit_diff_sptr d = comparison::compute_diff(tu, tu, dctxt);
	      if (d)
		{
		  std::ostringstream rep;
		  d->report(rep);
		}
	    }
	  return 0;
	}
      if (r != std::string::npos && doc.compare(r, 17, "<abi-corpus-group") == 0)
	{
	  corpus_group_sptr g = xml_reader::read_corpus_group_from_native_xml(&in, env.get());
	  if (g)
	    {
	      ++c.nontrivial;
	      comparison::diff_context_sptr dctxt(new comparison::diff_context);
	      comparison::corpus_diff_sptr d = comparison::compute_diff(g, g, dctxt);
	      if (d)
		{
		  std::ostringstream rep;
		  d->report(rep);
		}
	    }
	  return 0;
	}
      xml_reader::read_context_sptr ctxt = xml_reader::create_native_xml_read_context(&in, env.get());
      corpus_sptr corp = xml_reader::read_corpus_from_input(*ctxt);
      if (corp)
	{
	  ++c.nontrivial;
	  std::ostringstream out;
	  xml_writer::write_context_sptr w = xml_writer::create_write_context(env.get(), out);
	  xml_writer::write_corpus(*w, corp, 0);
	  comparison::diff_context_sptr dctxt(new comparison::diff_context);
	  comparison::corpus_diff_sptr d = comparison::compute_diff(corp, corp, dctxt);
	  if (d)
	    {
	      std::ostringstream rep;
	      d->report(rep);
	    }
	}
    }
  catch (const verif::assert_failure& e)
    {
      verif::on_assert(e);
    }
  return 0;
}
