// C38 — the sequence diff engine computes correct shortest edit scripts.
// Modes:  --exhaustive MAXLEN --part I --nparts N   |   --random (rapidcheck; RC_PARAMS)   |  --replay "a|b|eq"
// Common: --ignore cls1,cls2  --out stats.json
#include <rapidcheck.h>
#include <algorithm>
#include <cstdio>
#include <cstring>
#include <fstream>
#include <map>
#include <set>
#include <sstream>
#include <string>
#include <vector>
#include "abg-diff-utils.h"
#include "harness_util.h"
#include "rc_common.h"

using namespace abigail::diff_utils;
using std::string;
using std::vector;

static int g_eqmode = 0;  // 0: ==, 1: case-insensitive, 2: equal modulo 3
struct eq_functor
{
  bool operator()(char a, char b) const
  {
    switch (g_eqmode)
      {
      case 1: return tolower(a) == tolower(b);
      case 2: return (a % 3) == (b % 3);
      default: return a == b;
      }
  }
};

static int ref_lcs(const string& a, const string& b)
{
  eq_functor eq;
  vector<vector<int> > t(a.size() + 1, vector<int>(b.size() + 1, 0));
  for (size_t i = 1; i <= a.size(); ++i)
    for (size_t j = 1; j <= b.size(); ++j)
      t[i][j] = eq(a[i - 1], b[j - 1]) ? t[i - 1][j - 1] + 1 : std::max(t[i - 1][j], t[i][j - 1]);
  return t[a.size()][b.size()];
}

// Returns the list of failure classes for this case (empty: all held).
static vector<string> check_case(const string& a, const string& b, int eqmode, int variant)
{
  g_eqmode = eqmode;
  vector<string> bad;
  eq_functor eq;
  vector<point> lcs;
  edit_script ses;
  int ses_len = -1;
  // variant 0: functor API with ses_len; 1: default functor API (only when eqmode==0); 2: sub-region API with bases
  string pa = "xy" + a + "z", pb = "q" + b + "zz";
  if (variant == 1 && eqmode == 0)
    compute_diff(a.begin(), a.end(), b.begin(), b.end(), lcs, ses);
  else if (variant == 2)
    compute_diff<string::const_iterator, eq_functor>(pa.begin() + 2, pa.begin() + 2, pa.begin() + 2 + a.size(),
                                                     pb.begin() + 1, pb.begin() + 1, pb.begin() + 1 + b.size(),
                                                     lcs, ses, ses_len);
  else
    compute_diff<string::const_iterator, eq_functor>(a.begin(), a.end(), b.begin(), b.end(), lcs, ses, ses_len);

  int L = ref_lcs(a, b);
  int expect = int(a.size() + b.size()) - 2 * L;
  // --- script well-formedness
  std::set<int> dels;
  bool wf = true;
  for (auto& d : ses.deletions())
    {
      if (d.index() < 0 || d.index() >= int(a.size()) || !dels.insert(d.index()).second)
        wf = false;
    }
  std::set<unsigned> ins;
  for (auto& i : ses.insertions())
    {
      if (i.insertion_point_index() < -1 || i.insertion_point_index() >= int(a.size()))
        wf = false;
      for (unsigned k : i.inserted_indexes())
        if (k >= b.size() || !ins.insert(k).second)
          wf = false;
    }
  if (!wf)
    bad.push_back("script-wrong:indices");
  else
    {
      // A minus deletions == B minus insertions
      string ka, kb;
      for (size_t i = 0; i < a.size(); ++i) if (!dels.count(i)) ka += a[i];
      for (size_t j = 0; j < b.size(); ++j) if (!ins.count(j)) kb += b[j];
      bool same = ka.size() == kb.size();
      for (size_t i = 0; same && i < ka.size(); ++i) same = eq(ka[i], kb[i]);
      if (!same)
        bad.push_back("script-wrong:kept-mismatch");
      // literal application as class insertion documents
      string r;
      for (int i = -1; i < int(a.size()); ++i)
        {
          if (i >= 0 && !dels.count(i)) r += a[i];
          for (auto& x : ses.insertions())
            if (x.insertion_point_index() == i)
              for (unsigned k : x.inserted_indexes()) r += b[k];
        }
      bool ok = r.size() == b.size();
      for (size_t i = 0; ok && i < r.size(); ++i) ok = eq(r[i], b[i]);
      if (!ok)
        bad.push_back("script-wrong:apply");
    }
  if (ses.length() != expect)
    bad.push_back(ses.length() > expect ? "script-not-shortest" : "script-wrong:too-short");
  if (ses_len != -1 && ses_len != ses.length())
    bad.push_back("script-wrong:ses_len-disagrees");
  // --- lcs
  bool valid = true;
  for (size_t k = 0; k < lcs.size(); ++k)
    {
      int x = lcs[k].x(), y = lcs[k].y();
      if (x < 0 || y < 0 || x >= int(a.size()) || y >= int(b.size()) || !eq(a[x], b[y]))
        valid = false;
      if (k && (lcs[k - 1].x() >= x || lcs[k - 1].y() >= y))
        valid = false;
    }
  if (!valid || int(lcs.size()) > L)
    bad.push_back("lcs-invalid-points");
  else if (int(lcs.size()) < L)
    bad.push_back("lcs-incomplete");
  return bad;
}

struct Stats
{
  long evaluations = 0, nontrivial = 0;
  std::map<string, long> classes;
  std::map<string, string> witness;  // failure class -> smallest witness
  std::map<string, long> failcount;
  vector<string> samples;
  std::set<string> ignore;
} S;

static string enc(const string& a, const string& b, int eq, int variant)
{
  std::ostringstream o;
  o << a << "|" << b << "|" << eq << "|" << variant;
  return o.str();
}

// returns true when a non-ignored class failed
static bool run_one(const string& a, const string& b, int eq, int variant)
{
  vector<string> bad = check_case(a, b, eq, variant);
  ++S.evaluations;
  bool nt = !a.empty() && !b.empty() && a != b;
  if (nt) ++S.nontrivial;
  bool fail = false;
  for (auto& c : bad)
    {
      ++S.failcount[c];
      string w = enc(a, b, eq, variant);
      if (!S.witness.count(c) || w.size() < S.witness[c].size())
        S.witness[c] = w;
      if (!S.ignore.count(c))
        fail = true;
    }
  return fail;
}

static void dump(const char* out, bool exhaustive)
{
  std::ofstream f(out);
  f << "{\"evaluations\":" << S.evaluations << ",\"nontrivial\":" << S.nontrivial
    << ",\"exhaustive\":" << (exhaustive ? "true" : "false") << ",\"classes\":{";
  bool first = true;
  for (auto& c : S.classes) { f << (first ? "" : ",") << hu::jstr(c.first) << ":" << c.second; first = false; }
  f << "},\"failcount\":{";
  first = true;
  for (auto& c : S.failcount) { f << (first ? "" : ",") << hu::jstr(c.first) << ":" << c.second; first = false; }
  f << "},\"witness\":{";
  first = true;
  for (auto& c : S.witness) { f << (first ? "" : ",") << hu::jstr(c.first) << ":" << hu::jstr(c.second); first = false; }
  f << "},\"samples\":[";
  for (size_t i = 0; i < S.samples.size(); ++i) f << (i ? "," : "") << hu::jstr(S.samples[i]);
  f << "]}\n";
}

static void nth_seq(long n, int len, string& s)
{
  s.assign(len, 'a');
  for (int i = len - 1; i >= 0; --i) { s[i] = "abc"[n % 3]; n /= 3; }
}

int main(int argc, char** argv)
{
  hu::Args A(argc, argv);
  const char* out = A.get("--out", "/dev/null");
  for (auto& c : hu::split(A.get("--ignore", ""), ',')) if (!c.empty()) S.ignore.insert(c);
  if (A.has("--replay"))
    {
      vector<string> p = hu::split(A.get("--replay", ""), '|');
      while (p.size() < 4) p.push_back("0");
      vector<string> bad = check_case(p[0], p[1], atoi(p[2].c_str()), atoi(p[3].c_str()));
      for (auto& c : bad) printf("FAIL %s\n", c.c_str());
      return bad.empty() ? 0 : 1;
    }
  if (A.has("--exhaustive"))
    {
      int maxlen = atoi(A.get("--exhaustive", "5"));
      int part = atoi(A.get("--part", "0")), nparts = atoi(A.get("--nparts", "1"));
      vector<string> seqs;
      for (int l = 0; l <= maxlen; ++l)
        {
          long n = 1;
          for (int i = 0; i < l; ++i) n *= 3;
          string s;
          for (long k = 0; k < n; ++k) { nth_seq(k, l, s); seqs.push_back(s); }
        }
      long idx = 0;
      for (size_t i = 0; i < seqs.size(); ++i)
        for (size_t j = 0; j < seqs.size(); ++j, ++idx)
          {
            if (idx % nparts != part) continue;
            for (int variant = 0; variant < 3; ++variant)
              run_one(seqs[i], seqs[j], 0, variant);
            // a non-trivial equality predicate on the same exhaustive space: equal modulo 3 over letters a,b,d
            // (a=97%3=1, b=98%3=2, d=100%3=1 so a~d) is covered in the random tier; here case-insensitivity with
            // mixed case: upper-case the odd positions of A
            string ua = seqs[i];
            for (size_t k = 1; k < ua.size(); k += 2) ua[k] = toupper(ua[k]);
            run_one(ua, seqs[j], 1, 0);
            if (S.samples.size() < 4 && seqs[i].size() >= 3 && seqs[j].size() >= 3 && seqs[i] != seqs[j] && idx % 977 == 0)
              S.samples.push_back(enc(seqs[i], seqs[j], 0, 0));
          }
      S.classes["exhaustive-maxlen-" + std::to_string(maxlen)] = S.evaluations;
      dump(out, true);
      bool fail = false;
      for (auto& c : S.failcount) if (!S.ignore.count(c.first)) fail = true;
      return fail ? 1 : 0;
    }
  // random tier
  string lastfail;
  bool ok = rc::check("C38 edit scripts (random)", [&]() {
    int eq = rcc::rint<int>(0, 3);
    int variant = rcc::rint<int>(0, 3);
    int alpha = *rc::gen::element(2, 3, 5, 26);
    auto ch = rc::gen::map(rc::gen::resize(100, rc::gen::inRange(0, alpha * 2)), [=](int v) { return char((v % 2 ? 'A' : 'a') + v / 2); });
    string a = *rc::gen::resize(300, rc::gen::container<string>(ch));
    // b is either independent or an edited copy of a (so long common subsequences occur)
    string b;
    if (rcc::rint<int>(0, 3) == 0)
      b = *rc::gen::resize(300, rc::gen::container<string>(ch));
    else
      {
        b = a;
        int nedit = rcc::rint<int>(0, 12);
        for (int i = 0; i < nedit; ++i)
          {
            int op = rcc::rint<int>(0, 3);
            size_t pos = b.empty() ? 0 : rcc::rint<size_t>(0, b.size() + 1);
            if (op == 0 || b.empty()) b.insert(b.begin() + std::min(pos, b.size()), *ch);
            else if (op == 1) b.erase(b.begin() + std::min(pos, b.size() - 1));
            else b[std::min(pos, b.size() - 1)] = *ch;
          }
      }
    S.classes["eq=" + std::to_string(eq)]++;
    S.classes["variant=" + std::to_string(variant)]++;
    S.classes[a.size() + b.size() > 100 ? "len>100" : (a.size() + b.size() > 20 ? "len>20" : "len<=20")]++;
    if (S.samples.size() < 4 && a.size() > 5 && a != b) S.samples.push_back(enc(a, b, eq, variant));
    bool fail = run_one(a, b, eq, variant);
    if (fail) lastfail = enc(a, b, eq, variant);
    RC_ASSERT(!fail);
  });
  dump(out, false);
  if (!ok)
    {
      printf("RANDOM-FAIL %s\n", lastfail.c_str());
      return 1;
    }
  return 0;
}
