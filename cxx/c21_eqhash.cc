// C21 executor: loads two ELF binaries into ONE environment through the public API and checks, over pairs of artifacts,
//   symmetry of ==,  a == b  =>  hash(a) == hash(b),  compute_diff(a, b)->has_changes()  <=>  !(a == b).
// usage: c21_eqhash <elf1> <elf2> --out <json>
#include <cstdio>
#include <fstream>
#include <map>
#include <set>
#include <string>
#include <vector>
#include "abg-ir.h"
#include "abg-corpus.h"
#include "abg-comparison.h"
#include "abg-dwarf-reader.h"
#include "harness_util.h"

using namespace abigail;
using namespace abigail::ir;
using std::string;
using std::vector;

static vector<type_base_sptr> subranges;

static void
collect(const scope_decl_sptr& scope, std::map<string, type_or_decl_base_sptr>& decls, vector<type_base_sptr>& types, int depth)
{
  if (!scope || depth > 6)
    return;
  for (const auto& d : scope->get_member_decls())
    {
      if (function_decl_sptr f = is_function_decl(d))
	{
	  if (f->get_symbol())
	    decls["fn:" + f->get_symbol()->get_id_string()] = f;
	}
      else if (var_decl_sptr v = is_var_decl(d))
	{
	  if (v->get_symbol())
	    decls["var:" + v->get_symbol()->get_id_string()] = v;
	}
      else if (type_base_sptr t = is_type(d))
	{
	  if (is_subrange_type(t))
	    {
	      // compute_diff() has no diff class for array subranges and aborts on them (recorded finding): kept apart
	      subranges.push_back(t);
	      continue;
	    }
	  types.push_back(t);
	  if (class_or_union_sptr cu = is_class_or_union_type(t))
	    for (const auto& mf : cu->get_member_functions())
	      if (mf->get_symbol())
		decls["fn:" + mf->get_symbol()->get_id_string()] = mf;
	}
      if (scope_decl_sptr s = is_scope_decl(d))
	if (!is_class_or_union_type(d))
	  collect(s, decls, types, depth + 1);
    }
}

int
main(int argc, char** argv)
{
  hu::Args args(argc, argv);
  if (argc < 3)
    return 2;
  const char* out = args.get("--out", "/dev/stdout");
  environment_sptr env(new environment);
  vector<char**> di;
  elf_reader::status st1, st2;
  corpus_sptr c1 = dwarf_reader::read_corpus_from_elf(argv[1], di, env.get(), /*load_all_types=*/true, st1);
  corpus_sptr c2 = dwarf_reader::read_corpus_from_elf(argv[2], di, env.get(), /*load_all_types=*/true, st2);
  if (!c1 || !c2)
    {
      fprintf(stderr, "could not load the corpora\n");
      return 3;
    }
  std::map<string, type_or_decl_base_sptr> d1, d2;
  vector<type_base_sptr> t1, t2;
  for (const auto& tu : c1->get_translation_units())
    collect(tu->get_global_scope(), d1, t1, 0);
  for (const auto& tu : c2->get_translation_units())
    collect(tu->get_global_scope(), d2, t2, 0);

  comparison::diff_context_sptr ctxt(new comparison::diff_context);
  if (args.has("--try-subrange"))
    {
      // only this: does the diff engine answer for two array subrange types?
      if (subranges.empty())
	return 0;
      comparison::diff_sptr d = comparison::compute_diff(subranges[0], subranges[subranges.size() - 1], ctxt);
      return d ? 0 : 1;
    }
  long pairs = 0, unequal_same_id = 0, equal_pairs = 0;
  vector<string> fails, samples;
  auto check = [&](const string& what, const type_or_decl_base_sptr& a, const type_or_decl_base_sptr& b)
  {
    ++pairs;
    bool ab, ba;
    if (is_type(a) && is_type(b))
      {
	ab = *is_type(a) == *is_type(b);
	ba = *is_type(b) == *is_type(a);
      }
    else if (is_decl(a) && is_decl(b))
      {
	ab = *is_decl(a) == *is_decl(b);
	ba = *is_decl(b) == *is_decl(a);
      }
    else
      return;
    string pa = get_pretty_representation(a.get()), pb = get_pretty_representation(b.get());
    if (samples.size() < 4)
      samples.push_back(what + " | " + pa + " | " + pb + " | equal=" + (ab ? "1" : "0"));
    if (ab != ba)
      fails.push_back("equality-not-symmetric|" + what + "|" + pa + "|" + pb);
    if (ab)
      {
	++equal_pairs;
	if (hash_type_or_decl(a) != hash_type_or_decl(b))
	  fails.push_back("equal-but-different-hash|" + what + "|" + pa + "|" + pb);
      }
    comparison::diff_sptr d;
    if (is_type(a))
      d = comparison::compute_diff(is_type(a), is_type(b), ctxt);
    else
      d = comparison::compute_diff(is_decl(a), is_decl(b), ctxt);
    if (d && d->has_changes() == ab)
      fails.push_back(string(ab ? "diff-reports-change-between-equal-artifacts" : "diff-reports-no-change-between-unequal-artifacts")
		      + "|" + what + "|" + pa + "|" + pb);
  };

  // (a) artifacts with the same identity across the two corpora
  for (const auto& e : d1)
    {
      auto it = d2.find(e.first);
      if (it == d2.end())
	continue;
      size_t before = fails.size();
      check("same-id:" + e.first, e.second, it->second);
      bool eq = is_decl(e.second) && is_decl(it->second) && *is_decl(e.second) == *is_decl(it->second);
      if (!eq)
	++unequal_same_id;
      (void) before;
    }
  // (b) all pairs of types inside the first corpus (bounded)
  size_t n = t1.size() > 60 ? 60 : t1.size();
  for (size_t i = 0; i < n; ++i)
    for (size_t j = i; j < n; ++j)
      check("types-of-one-corpus", t1[i], t1[j]);
  // (c) same-named types across the two corpora
  for (const auto& a : t1)
    for (const auto& b : t2)
      if (get_pretty_representation(a.get()) == get_pretty_representation(b.get()))
	check("same-named-types", a, b);

  std::ofstream o(out);
  o << "{\"pairs\": " << pairs << ", \"unequal_same_id\": " << unequal_same_id << ", \"equal_pairs\": " << equal_pairs
    << ", \"excluded_subrange_types\": " << subranges.size() << ", \"ntypes\": " << t1.size() << ", \"ndecls\": " << d1.size() << ", \"fails\": [";
  for (size_t i = 0; i < fails.size() && i < 20; ++i)
    o << (i ? ", " : "") << hu::jstr(fails[i]);
  o << "], \"samples\": [";
  for (size_t i = 0; i < samples.size(); ++i)
    o << (i ? ", " : "") << hu::jstr(samples[i]);
  o << "]}\n";
  return fails.empty() ? 0 : 1;
}
