// C42 — interned strings compare like their contents.
#include "rc_common.h"
#include <unordered_set>
#include "abg-interned-str.h"
using namespace abigail;
using std::string; using std::vector;
static rcc::Stats S;

static vector<string> check(const vector<string>& strs)
{
  vector<string> bad;
  interned_string_pool pool;
  vector<interned_string> is;
  for (auto& s : strs) is.push_back(pool.create_string(s));
  hash_interned_string h;
  for (size_t i = 0; i < strs.size(); ++i)
    {
      if (string(is[i]) != strs[i]) bad.push_back("conversion-differs");
      if (!pool.has_string(strs[i].c_str()) && strs[i].find('\0') == string::npos) bad.push_back("has_string-false");
      for (size_t j = 0; j < strs.size(); ++j)
        {
          bool eq = strs[i] == strs[j];
          if ((is[i] == is[j]) != eq) bad.push_back("equality-differs");
          if ((is[i] != is[j]) == eq) bad.push_back("inequality-differs");
          if ((is[i].raw() == is[j].raw()) != eq) bad.push_back("identity-differs");
          if ((is[i] < is[j]) != (strs[i] < strs[j])) bad.push_back("order-differs");
          if ((is[i] == strs[j]) != eq) bad.push_back("eq-with-string-differs");
          if ((strs[j] == is[i]) != eq) bad.push_back("eq-with-string-reversed-differs");
          if ((is[i] != strs[j]) == eq) bad.push_back("ne-with-string-differs");
          if ((strs[j] != is[i]) == eq) bad.push_back("ne-with-string-reversed-differs");
          if (eq && h(is[i]) != h(is[j])) bad.push_back("hash-differs-for-equal");
          if (is[i] + strs[j] != strs[i] + strs[j] || strs[j] + is[i] != strs[j] + strs[i]) bad.push_back("concat-differs");
        }
    }
  // an empty interned_string (default constructed) compares equal to the empty plain string
  interned_string e;
  if (!(e == string("")) || string(e) != "") bad.push_back("empty-differs");
  // ... and like the empty string with every operator, in both operand orders, against every string of the case
  for (size_t j = 0; j < strs.size(); ++j)
    {
      bool eq = strs[j].empty();
      if ((e == strs[j]) != eq || (strs[j] == e) != eq) bad.push_back("default-constructed-eq-with-string-differs");
      if ((e != strs[j]) == eq || (strs[j] != e) == eq) bad.push_back("default-constructed-ne-with-string-differs");
      if ((e == is[j]) != eq || (is[j] == e) != eq || (e != is[j]) == eq || (is[j] != e) == eq)
	bad.push_back("default-constructed-vs-interned-differs");
      if ((e < is[j]) != (string() < strs[j]) || (is[j] < e) != (strs[j] < string())) bad.push_back("default-constructed-order-differs");
    }
  if ((e != string("")) || (string("") != e) || !(string("") == e)) bad.push_back("default-constructed-vs-empty-string-differs");
  std::sort(bad.begin(), bad.end()); bad.erase(std::unique(bad.begin(), bad.end()), bad.end());
  return bad;
}
static string enc(const vector<string>& v) { string s; for (size_t i = 0; i < v.size(); ++i) s += (i ? "," : "") + hu::hex(v[i]); return s; }
int main(int argc, char** argv)
{
  hu::Args A(argc, argv); S.init(A);
  const char* out = A.get("--out", "/dev/null");
  if (A.has("--replay"))
    {
      vector<string> v; string r = A.get("--replay", "");
      if (!r.empty()) for (auto& h : hu::split(r, ',')) v.push_back(hu::unhex(h));
      vector<string> bad = check(v);
      for (auto& c : bad) printf("FAIL %s\n", c.c_str());
      return bad.empty() ? 0 : 1;
    }
  string last;
  vector<string> pieces = {"a", "b", "A", "ab", "", "z", "0", "_", "\xc3\xa9", " "};
  bool ok = rc::check("C42 interned strings", [&]() {
    auto one = rcc::str_over(pieces, 5);
    vector<string> v = *rc::gen::resize(8, rc::gen::container<vector<string>>(one));
    // add prefixes / duplicates of existing elements so equal and prefix-related strings are frequent
    int extra = rcc::rint<int>(0, 4);
    for (int i = 0; i < extra && !v.empty(); ++i)
      {
        const string& s = v[rcc::rint<size_t>(0, v.size())];
        int m = rcc::rint<int>(0, 3);
        v.push_back(m == 0 ? s : m == 1 ? s.substr(0, s.size() / 2) : s + "a");
      }
    std::set<string> d(v.begin(), v.end());
    bool nt = d.size() >= 2 && d.size() < v.size();
    if (nt) ++S.nontrivial;
    S.classes[nt ? "has-duplicates-and-distinct" : "other"]++;
    if (d.count("")) S.classes["has-empty"]++;
    S.sample(enc(v));
    ++S.evaluations;
    bool f = false;
    for (auto& c : check(v)) f |= S.fail(c, enc(v));
    if (f) last = enc(v);
    RC_ASSERT(!f);
  });
  S.dump(out);
  if (!ok) { printf("RANDOM-FAIL %s\n", last.c_str()); return 1; }
  return 0;
}
