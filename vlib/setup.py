"""MANIFEST.setup_cmd: build every variant of the working tree and every C++ harness once (fills ccache)."""
import sys, time
from concurrent.futures import ThreadPoolExecutor
from . import build, registry


def main():
    t0 = time.time()
    vs = list(build.VARIANTS)
    with ThreadPoolExecutor(len(vs)) as ex:
        list(ex.map(build.ensure, vs))
    with ThreadPoolExecutor(8) as ex:
        list(ex.map(lambda h: build.ensure_harness(*h[0], **h[1]), registry.HARNESSES))
    print("setup done in %.0fs" % (time.time() - t0))


if __name__ == "__main__":
    try:
        main()
    except build.BuildError as e:
        sys.stderr.write(str(e)[-5000:] + "\n")
        sys.exit(1)
