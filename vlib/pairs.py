"""Helpers shared by the (P, M(P)) properties: build both versions, run abidiff, parse."""
import os, re
from . import cbuild
from .gen import model as M
from .oracle import report as R
from .runner import Inconclusive


def _vtable_without_key_function(m):
    """A class that has a vtable (virtual base somewhere up the hierarchy, or inherited virtual functions) but declares no
    virtual member function of its own has no key function."""
    idx = M.type_index(m)

    def has_vtable(t):
        return any(me.get("virtual") for me in t.get("methods", [])) or \
            any(b.get("virtual") or has_vtable(idx[b["name"]]) for b in t.get("bases", []))
    for t in m["types"]:
        if t["kind"] in ("class", "struct") and has_vtable(t) and not any(
                me.get("virtual") and not me.get("inline") for me in t.get("methods", [])):
            return True
    return False


def build_pair(cx, m1, m2, cfg, full_debug=True, names=("v1", "v2"), **kw):
    cfg = dict(cfg)
    if full_debug and cfg.get("cc") == "clang":
        cfg["cflags"] = list(cfg.get("cflags", [])) + ["-fstandalone-debug"]
    elif full_debug and m1.get("lang") == "cxx" and (_vtable_without_key_function(m1) or _vtable_without_key_function(m2)):
        # g++ describes a class with a vtable only where the vtable is emitted (and nowhere if nothing emits it);
        # the oracle's model assumes every reachable type has a full DWARF definition
        cfg["cflags"] = list(cfg.get("cflags", [])) + ["-femit-class-debug-always"]
    d = cx.dir()
    try:
        b1 = cbuild.compile_model(m1, cfg, os.path.join(d, names[0]), **kw)
        b2 = cbuild.compile_model(m2, cfg, os.path.join(d, names[1]), **kw)
    except cbuild.CompileError as e:
        cx.cls("compile-error")
        cx.extra["compile_error:" + str(e)[:60]] += 0
        raise Inconclusive(str(e))
    return d, b1, b2


def abidiff(cx, a, b, opts=(), variant="plain", nodefsup=True):
    args = (["--no-default-suppression"] if nodefsup else []) + list(opts) + [a, b]
    r = cbuild.tool("abidiff", args, variant=variant)
    if r.timeout:
        raise Inconclusive("abidiff timeout")
    return r


def parse_or_oracle_error(cx, run):
    """Parse a report; a report the parser cannot account for is an oracle error, never a violation."""
    try:
        rep = R.parse(run.text())
    except R.ParseError as e:
        cx.extra["oracle_parse_error"] += 1
        raise Inconclusive("report parser: %s" % e)
    if rep.other:
        cx.extra["oracle_unparsed_lines"] += 1
        raise Inconclusive("report parser: unaccounted lines %r" % rep.other[:3])
    return rep


def mentions(entries, name):
    rx = re.compile(r"(?<![A-Za-z0-9_])" + re.escape(name) + r"(?![A-Za-z0-9_])")
    return any(rx.search(e) for e in entries)


def entries(rep, *keys):
    out = []
    for k in keys:
        out += rep.sections.get(k, {"entries": []})["entries"]
    return out
