"""Helpers shared by the (P, M(P)) properties: build both versions, run abidiff, parse."""
import os, re
from . import cbuild
from .gen import model as M
from .oracle import report as R
from .runner import Inconclusive


def _vtable_without_key_function(m):
    """A class that has a vtable (virtual base somewhere up the hierarchy, or inherited virtual functions) but declares no
    virtual member function of its own has no key function."""
    idx = M.type_index(m)

    def has_vtable(t):
        return any(me.get("virtual") for me in t.get("methods", [])) or \
            any(b.get("virtual") or has_vtable(idx[b["name"]]) for b in t.get("bases", []))
    for t in m["types"]:
        if t["kind"] in ("class", "struct") and has_vtable(t) and not any(
                me.get("virtual") and not me.get("inline") for me in t.get("methods", [])):
            return True
    return False


def build_pair(cx, m1, m2, cfg, full_debug=True, names=("v1", "v2"), sonames=None, **kw):
    cfg = dict(cfg)
    if full_debug and cfg.get("cc") == "clang":
        cfg["cflags"] = list(cfg.get("cflags", [])) + ["-fstandalone-debug"]
    elif full_debug and m1.get("lang") == "cxx" and (_vtable_without_key_function(m1) or _vtable_without_key_function(m2)):
        # g++ describes a class with a vtable only where the vtable is emitted (and nowhere if nothing emits it);
        # the oracle's model assumes every reachable type has a full DWARF definition
        cfg["cflags"] = list(cfg.get("cflags", [])) + ["-femit-class-debug-always"]
    d = cx.dir()
    try:
        c1, c2 = dict(cfg), dict(cfg)
        if sonames:
            c1["soname"], c2["soname"] = sonames
        b1 = cbuild.compile_model(m1, c1, os.path.join(d, names[0]), **kw)
        b2 = cbuild.compile_model(m2, c2, os.path.join(d, names[1]), **kw)
    except cbuild.CompileError as e:
        cx.cls("compile-error")
        cx.extra["compile_error:" + str(e)[:60]] += 0
        raise Inconclusive(str(e))
    return d, b1, b2


def abidiff(cx, a, b, opts=(), variant="plain", nodefsup=True):
    args = (["--no-default-suppression"] if nodefsup else []) + list(opts) + [a, b]
    r = cbuild.tool("abidiff", args, variant=variant)
    if r.timeout:
        raise Inconclusive("abidiff timeout")
    return r


def parse_or_oracle_error(cx, run):
    """Parse a report; a report the parser cannot account for is an oracle error, never a violation."""
    try:
        rep = R.parse(run.text())
    except R.ParseError as e:
        cx.extra["oracle_parse_error"] += 1
        raise Inconclusive("report parser: %s" % e)
    if rep.other:
        cx.extra["oracle_unparsed_lines"] += 1
        raise Inconclusive("report parser: unaccounted lines %r" % rep.other[:3])
    return rep


def mentions(entries, name):
    rx = re.compile(r"(?<![A-Za-z0-9_])" + re.escape(name) + r"(?![A-Za-z0-9_])")
    return any(rx.search(e) for e in entries)


def entries(rep, *keys):
    out = []
    for k in keys:
        out += rep.sections.get(k, {"entries": []})["entries"]
    return out


# --------------------------------------------------------------------------
# the recorded "masked" defect (known_findings.json: C05, C13): a local change that categorize_harmful_diff_node gives no
# category (e.g. a data member whose type changes without any size/offset change) is reported only as long as no harmless
# category is propagated to one of its ancestors; as soon as a sibling/child carries a harmless category (top-level cv
# change of a parameter, size-preserving union change, access change ...) the ancestor's category set is non-empty and
# holds nothing that is allowed by default, and diff::is_filtered_out drops the whole sub-tree.

HARMLESS_CATS = {"ACCESS_CHANGE_CATEGORY", "COMPATIBLE_TYPE_CHANGE_CATEGORY", "HARMLESS_DECL_NAME_CHANGE_CATEGORY",
                 "NON_VIRT_MEM_FUN_CHANGE_CATEGORY", "STATIC_DATA_MEMBER_CHANGE_CATEGORY", "HARMLESS_ENUM_CHANGE_CATEGORY",
                 "HARMLESS_SYMBOL_ALIAS_CHANGE_CATEGORY", "HARMLESS_UNION_CHANGE_CATEGORY",
                 "HARMLESS_DATA_MEMBER_CHANGE_CATEGORY", "TYPE_DECL_ONLY_DEF_CHANGE_CATEGORY",
                 "FN_PARM_TYPE_TOP_CV_CHANGE_CATEGORY", "FN_PARM_TYPE_CV_CHANGE_CATEGORY", "FN_RETURN_TYPE_CV_CHANGE_CATEGORY",
                 "VAR_TYPE_CV_CHANGE_CATEGORY", "VOID_PTR_TO_PTR_CHANGE_CATEGORY", "BENIGN_INFINITE_ARRAY_CHANGE_CATEGORY"}
_NODE = re.compile(r"^( *)(\w+)\[(.*)\]$")


def diff_tree(text):
    """Parse `abidiff --dump-diff-tree` (stderr) into [(indent, kind, subjects, {categories})]."""
    nodes = []
    lines = text.splitlines()
    for k, l in enumerate(lines):
        m = _NODE.match(l)
        if not m or k + 2 >= len(lines) or lines[k + 1].strip() != "{":
            continue
        c = lines[k + 2].strip()
        if not c.startswith("category:"):
            continue
        nodes.append((len(m.group(1)), m.group(2), m.group(3), set(x.strip() for x in c[9:].split("|"))))
    return nodes


def diff_tree_full(text):
    """Like diff_tree, with the node's address and the address of its canonical diff node:
    [(indent, kind, subjects, {categories}, addr, canonical_addr)]."""
    nodes = []
    lines = text.splitlines()
    for k, l in enumerate(lines):
        m = _NODE.match(l)
        if not m or k + 4 >= len(lines) or lines[k + 1].strip() != "{":
            continue
        c = lines[k + 2].strip()
        if not c.startswith("category:"):
            continue
        a, ca = lines[k + 3].strip(), lines[k + 4].strip()
        addr = a[2:].strip() if a.startswith("@:") else None
        canon = ca[len("@-canonical:"):].strip() if ca.startswith("@-canonical:") else None
        nodes.append((len(m.group(1)), m.group(2), m.group(3), set(x.strip() for x in c[9:].split("|")), addr, canon))
    return nodes


def only_harmless_categories_in_tree(cx, b1, b2, opts=()):
    """True when the tool's own diff tree carries at least one harmless category and not a single category outside the
    harmless set (no SIZE_OR_OFFSET / VIRTUAL_MEMBER / FN_PARM_ADD_REMOVE / SUPPRESSED / PRIVATE_TYPE ... anywhere), and
    the default reporter does show a change once harmless changes are allowed (--harmless)."""
    t = abidiff(cx, b1, b2, list(opts) + ["--dump-diff-tree"])
    if cbuild.crashed(t):
        return False
    cats = set()
    for ind, kind, subj, cs in diff_tree(t.etext()):
        cats |= cs
    cats -= {"NO_CHANGE_CATEGORY", "REDUNDANT_CATEGORY"}
    if not cats or not cats <= HARMLESS_CATS:
        return False
    h = abidiff(cx, b1, b2, list(opts) + ["--harmless"])
    return not cbuild.crashed(h) and bool(h.rc & R.STATUS_CHANGE) and not h.rc & R.STATUS_ERROR


HARMFUL_CATS = {"SIZE_OR_OFFSET_CHANGE_CATEGORY", "VIRTUAL_MEMBER_CHANGE_CATEGORY", "FN_PARM_ADD_REMOVE_CHANGE_CATEGORY"}


def subtree_has_nothing_reportable(cx, b1, b2, opts, iface):
    """True when, in the tool's own diff tree, the sub-tree of the function / variable diff node of `iface` holds no node
    that carries a harmful category without being suppressed (SUPPRESSED_CATEGORY / PRIVATE_TYPE_CATEGORY): by the tool's
    own categorisation there is then nothing under that interface that the default reporter may show."""
    t = abidiff(cx, b1, b2, list(opts) + ["--dump-diff-tree"])
    if cbuild.crashed(t):
        return False
    nodes = diff_tree(t.etext())
    rx = re.compile(r"(?<![A-Za-z0-9_])" + re.escape(iface) + r"(?![A-Za-z0-9_])")
    found = False
    for k, (ind, kind, subj, cats) in enumerate(nodes):
        if kind not in ("function_decl_diff", "function_diff", "var_diff") or not rx.search(subj):
            continue
        if any(nodes[j][0] < ind and nodes[j][1] in ("class_diff", "union_diff") for j in range(k)) and kind == "var_diff" and ind > 2:
            continue    # a data member, not the variable itself
        found = True
        end = next((j for j in range(k + 1, len(nodes)) if nodes[j][0] <= ind), len(nodes))
        sub = nodes[k:end]
        SUP = {"SUPPRESSED_CATEGORY", "PRIVATE_TYPE_CATEGORY"}
        for j, n in enumerate(sub):
            harm = n[3] & HARMFUL_CATS
            if not harm or n[3] & SUP:
                continue
            # below a suppressed node nothing is reported
            anc, lvl = False, n[0]
            for q in range(j - 1, -1, -1):
                if sub[q][0] < lvl:
                    lvl = sub[q][0]
                    if sub[q][3] & SUP and q > 0:
                        anc = True
                        break
            if anc:
                continue
            # categories are propagated upwards: only the node where a harmful category originates (none of its
            # children carries it) stands for a change of its own
            kids_end = next((q for q in range(j + 1, len(sub)) if sub[q][0] <= n[0]), len(sub))
            kids = [c for c in sub[j + 1:kids_end] if c[0] == n[0] + 2]
            if any(harm & c[3] for c in kids):
                continue
            return False
    return found

