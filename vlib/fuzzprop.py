"""Driver for the libFuzzer targets (C25, C33, C34).

quick / thorough: (1) build the target against the `asan` libabigail.a, (2) replay findings/<pid> (known-finding witnesses)
and corpus/<pid> (regressions) one file at a time, (3) run a forked libFuzzer campaign (-fork=J -ignore_crashes=1) from a
fresh copy of the seed corpus and a second, smaller one from an empty corpus, (4) re-run every crash artifact alone to key
it (assertion site / sanitizer error + first libabigail frame), (5) known keys -> KNOWN-FINDING, unknown -> VIOLATION."""
import os, sys, re, json, time, glob, shutil, subprocess, hashlib, collections
from . import build, runner, cbuild

VERIF = build.VERIF


def target_env(known, stats=None):
    env = cbuild.tool_env()
    env["ASAN_OPTIONS"] = "detect_leaks=0:abort_on_error=1:symbolize=1:allocator_may_return_null=1:malloc_context_size=5"
    env["UBSAN_OPTIONS"] = "halt_on_error=1:abort_on_error=1:print_stacktrace=1"
    env["VERIF_IGNORE"] = ";".join(sorted(known))
    if stats:
        env["VERIF_STATS"] = stats
    if os.environ.get("VERIF_FUZZ_DATA"):
        env["VERIF_FUZZ_DATA"] = os.environ["VERIF_FUZZ_DATA"]
    # the targets' per-process scratch files (the ELF / whitelist bytes handed to path-taking APIs) live under build/, not /tmp
    tmp = os.path.join(build.BUILD, "run", "fuzztmp")
    os.makedirs(tmp, exist_ok=True)
    env["VERIF_FUZZ_TMP"] = tmp
    return env


def _ns(frame):
    """abigail::xml_reader::read_access -> xml_reader"""
    parts = frame.split("::")
    if parts and parts[0] == "abigail" and len(parts) > 1:
        return parts[1]
    return parts[0] if parts else "?"


def key_of(stderr):
    k = _key_of(stderr)
    if not k:
        return k
    # Granularity of the keys (DESIGN.md section 6): the readers validate their input with ABG_ASSERT / abort() at
    # hundreds of places; an assertion is keyed by the source file it sits in, an abort() or a hang by the namespace of the
    # function that calls it.  Memory errors and undefined behaviour keep their precise key (error kind + function).
    if k.startswith("assert:"):
        return ":".join(k.split(":")[:2])
    if k.startswith(("abort:", "timeout:")):
        kind, frame = k.split(":", 1)
        return kind + ":" + _ns(frame)
    if k.startswith("asan:") and k.count(":") >= 2:
        # memory errors: error kind + namespace of the first libabigail frame (the unvalidated hash-table / dynamic-segment
        # code of the ELF reader fails in many neighbouring functions for one and the same reason)
        _, kind, frame = k.split(":", 2)
        return "asan:%s:%s" % (kind, _ns(frame))
    if k.startswith("ubsan:"):
        # undefined behaviour: file + kind of error, without the type named in the message
        return re.sub(r" (of|for) type '.*$| to N overflowed.*$", "", re.sub(r" N-bit type.*$", "", k))
    return k


def _key_of(stderr):
    m = re.search(r"VERIF-FINDING key=(.*)", stderr)
    if m:
        return m.group(1).strip()
    m = re.search(r"ERROR: AddressSanitizer: ([\w-]+)", stderr)
    if m and m.group(1) == "stack-overflow":
        return "asan:stack-overflow"      # unbounded recursion: the frame on top when the guard page is hit is arbitrary
    if m and m.group(1) not in ("ABRT", "ILL"):
        # innermost frame that is not the sanitizer runtime: inside elfutils?
        for fm in re.finditer(r"#\d+ 0x[0-9a-f]+ (?:in (\S+) )?([^\n]*)", stderr):
            fn, rest = fm.group(1) or "", fm.group(2)
            if re.match(r"^(__asan|__interceptor|__sanitizer|__ubsan|asan_|memcpy|memmove|memset|strlen|strcmp)", fn) or "compiler-rt" in rest:
                continue
            if re.search(r"lib(elf|dw)[-.]", rest):
                return "elfutils:%s:%s" % (m.group(1), first_frame(stderr))
            break
        fr = re.search(r"#\d+ 0x[0-9a-f]+ in ((?:abigail::)?[\w:~<>]+)[^\n]*/(?:src|tools|include)/abg", stderr)
        return "asan:%s:%s" % (m.group(1), fr.group(1) if fr else first_frame(stderr))
    m = re.search(r"([\w./-]+):(\d+):\d+: runtime error: (.*)", stderr)
    if m:
        return "ubsan:%s:%s" % (os.path.basename(m.group(1)), re.sub(r"0x[0-9a-f]+|\d+", "N", m.group(3))[:60])
    if "libFuzzer: timeout" in stderr or "ALARM: working on the last Unit" in stderr:
        return "timeout:" + first_frame(stderr)
    if "out-of-memory" in stderr:
        return "oom"
    if re.search(r"deadly signal|ERROR: AddressSanitizer: (ABRT|ILL)|libFuzzer: ", stderr):
        return "abort:" + first_frame(stderr)
    return None


def first_frame(stderr):
    for m in re.finditer(r"#\d+ 0x[0-9a-f]+ in ([^\s(]+)[^\n]*", stderr):
        fn = m.group(1)
        if fn.startswith("abigail::") or "abg-" in m.group(0):
            return re.sub(r"<.*>", "<>", fn)[:80]
    return "?"


def run_one(exe, path, known, timeout=60):
    try:
        r = subprocess.run([exe, "-timeout=10", "-rss_limit_mb=3000", path], stdout=subprocess.PIPE, stderr=subprocess.PIPE,
                           env=target_env(known), timeout=timeout)
        return r.returncode, r.stderr.decode(errors="replace")
    except subprocess.TimeoutExpired as e:
        return -999, "libFuzzer: timeout (harness watchdog)\n" + (e.stderr or b"").decode(errors="replace")


def run(pid, tier, mod):
    t0 = time.time()
    seedv = int(os.environ.get("VERIF_SEED", "1") or "1") or 1
    exe = build.ensure_harness(mod.HARNESS, "asan", mod.SOURCES, extra_flags=["-fsanitize=fuzzer-no-link", "-DVERIF_ASSERT_STRONG"],
                               extra_ld=["-fsanitize=fuzzer"])
    known = runner.load_known(pid)
    rdir = os.path.join(build.BUILD, "run", pid)
    shutil.rmtree(rdir, ignore_errors=True)
    os.makedirs(rdir)
    seeds = os.path.join(rdir, "seeds")
    os.makedirs(seeds)
    nseed = mod.make_seeds(seeds, tier, seedv)
    found = {}          # key -> (artifact path, stderr tail)
    confirmed = collections.Counter()
    evaluations = 0
    # replay tier
    for sub in ("findings", "corpus"):
        for f in sorted(glob.glob(os.path.join(VERIF, sub, pid, "*"))):
            if f.endswith(".json") or os.path.isdir(f):
                continue
            rc, err = run_one(exe, f, set() if sub == "findings" else known)
            evaluations += 1
            k = key_of(err) if rc != 0 else None
            if sub == "findings":
                if k and k in known:
                    confirmed[k] += 1
                elif k:
                    found.setdefault(k, (f, err[-1500:]))
            elif k and k not in known:
                found.setdefault(k, (f, err[-1500:]))
    # campaigns
    secs = int(os.environ.get("VERIF_FUZZ_SECS") or mod.SECONDS[tier])
    jobs = int(os.environ.get("VERIF_FUZZ_JOBS") or 14)
    campaigns = [("seeded", seeds, jobs, secs), ("empty", None, 2, secs)]
    procs = []
    stats_prefix = os.path.join(rdir, "stats")
    for name, sdir, j, t in campaigns:
        cdir = os.path.join(rdir, "corpus-" + name)
        adir = os.path.join(rdir, "artifacts-" + name) + "/"
        os.makedirs(cdir), os.makedirs(adir)
        cmd = [exe, "-fork=%d" % j, "-ignore_crashes=1", "-ignore_timeouts=1", "-ignore_ooms=1", "-max_total_time=%d" % t,
               "-seed=%d" % (seedv * 7919 + len(procs)), "-max_len=%d" % mod.MAX_LEN, "-timeout=10", "-rss_limit_mb=3000",
               "-artifact_prefix=" + adir, "-print_final_stats=1", cdir] + ([sdir] if sdir else [])
        if getattr(mod, "DICT", None):
            cmd.insert(1, "-dict=" + os.path.join(VERIF, "cxx", mod.DICT))
        log = open(os.path.join(rdir, name + ".log"), "wb")
        procs.append((name, subprocess.Popen(cmd, stdout=log, stderr=subprocess.STDOUT, env=target_env(known, stats_prefix), cwd=rdir),
                      adir, cdir))
    for name, p, adir, cdir in procs:
        try:
            p.wait(timeout=secs * 3 + 600)
        except subprocess.TimeoutExpired:
            p.kill()
    nontrivial = 0
    ignored_asserts = 0
    for f in glob.glob(stats_prefix + ".*"):
        try:
            a, b, c = open(f).read().split()
            evaluations += int(a)
            nontrivial += int(b)
            ignored_asserts += int(c)
        except Exception:
            pass
    execs_logged = 0
    for name, p, adir, cdir in procs:
        txt = open(os.path.join(rdir, name + ".log"), errors="replace").read()
        for m in re.finditer(r"stat::number_of_executed_units:\s+(\d+)", txt):
            execs_logged += int(m.group(1))
    evaluations = max(evaluations, execs_logged)
    # key every artifact
    noise = collections.Counter()
    arts = []
    for name, p, adir, cdir in procs:
        arts += sorted(glob.glob(adir + "*"))
    by_key = collections.defaultdict(list)
    nt_timeouts = 0
    # smallest first; one confirmed artifact per key is enough, so stop re-running a key once it has been seen 3 times
    arts.sort(key=os.path.getsize)
    seen_pref = collections.Counter()
    for a in arts[:int(os.environ.get("VERIF_FUZZ_MAX_ARTIFACTS") or (60 if tier == "quick" else 400))]:
        base = os.path.basename(a)
        if base.startswith("timeout-"):
            nt_timeouts += 1
            if nt_timeouts > 2:
                noise["timeout-not-reexamined"] += 1
                continue
        if base.startswith(("slow-unit", "oom-")):
            noise[base.split("-")[0]] += 1
            continue
        rc, err = run_one(exe, a, known)
        if rc == 0:
            noise["not-reproduced"] += 1
            continue
        k = key_of(err) or "unclassified"
        if k in ("timeout:?", "abort:?"):
            noise["no-libabigail-frame"] += 1      # e.g. a loop inside elfutils: classified apart
            continue
        if k.startswith("elfutils:"):
            noise["elfutils"] += 1      # classified separately, as the statement of C34 prescribes
            continue
        if k.startswith("timeout") or k == "oom":
            # a hang counts only if it reproduces alone with 10x the limit
            rc2, err2 = run_one(exe, a, known, timeout=90)
            if rc2 == 0 or not (key_of(err2) or "").startswith("timeout"):
                noise["timeout-not-reproduced"] += 1
                continue
        by_key[k].append((a, err[-1500:]))
    for k, lst in by_key.items():
        lst.sort(key=lambda x: os.path.getsize(x[0]))
        if k in known:
            confirmed[k] += len(lst)
        else:
            found.setdefault(k, lst[0])
    # distinct non-trivial: corpus units at exit (coverage-distinct inputs) that the target counted as parsed
    units = sum(len(os.listdir(cdir)) for name, p, adir, cdir in procs)
    lines, nviol = [], 0
    for k, (path, err) in sorted(found.items()):
        h = hashlib.sha1((k + path).encode()).hexdigest()[:12]
        d = os.path.join(build.BUILD, "replays", pid, h)
        os.makedirs(d, exist_ok=True)
        shutil.copy(path, os.path.join(d, "input"))
        json.dump({"property": pid, "key": k, "fuzz_input": "input", "detail": {"stderr": err}}, open(os.path.join(d, "case.json"), "w"), indent=1)
        lines.append("VIOLATION property=%s replay=%s" % (pid, d))
        sys.stderr.write("[%s] violation key=%s\n%s\n" % (pid, k, err[-1200:]))
        nviol += 1
    for k, e in known.items():
        if confirmed.get(k):
            lines.append("KNOWN-FINDING: property=%s %s: %s (reproduced %d times this run)" % (pid, k, e["what"], confirmed[k]))
        else:
            sys.stderr.write("[%s] listed known finding %s was not reproduced in this run\n" % (pid, k))
    samples = []
    for name, p, adir, cdir in procs:
        for f in sorted(os.listdir(cdir))[:2]:
            samples.append({"campaign": name, "unit": f, "head": open(os.path.join(cdir, f), "rb").read(160).decode(errors="replace")})
    cov = {"evaluations": int(evaluations), "distinct_nontrivial": int(min(units, nontrivial) if nontrivial else 0),
           "rule": mod.RULE, "samples": samples[:4], "seed_files": nseed, "corpus_units_at_exit": units,
           "executions_counted_nontrivial_by_target": nontrivial, "assertions_at_known_sites_survived": ignored_asserts,
           "artifacts": len(arts), "artifact_noise": dict(noise), "known_findings_confirmed": dict(confirmed),
           "campaigns": [{"name": n, "jobs": j, "seconds": t} for n, s, j, t in campaigns], "exhaustive": False}
    runner.write_evidence(pid, tier, seedv, "exploration", cov, time.time() - t0, nviol, mod.ASSUMPTIONS)
    for l in lines:
        print(l)
    shutil.rmtree(os.path.join(rdir, "corpus-seeded"), ignore_errors=True)
    shutil.rmtree(os.path.join(build.BUILD, "run", "fuzztmp"), ignore_errors=True)
    return 1 if nviol else 0


def replay(pid, mod, d):
    exe = build.ensure_harness(mod.HARNESS, "asan", mod.SOURCES, extra_flags=["-fsanitize=fuzzer-no-link", "-DVERIF_ASSERT_STRONG"], extra_ld=["-fsanitize=fuzzer"])
    rc, err = run_one(exe, os.path.join(d, "input"), set())
    k = key_of(err) if rc != 0 else None
    if k:
        print("VIOLATION property=%s replay=%s" % (pid, d))
        print(json.dumps({"key": k, "stderr": err[-1500:]}, indent=1))
        return 1
    print("replay of %s: property held" % d)
    return 0
