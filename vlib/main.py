import sys, os
from . import runner, build


def main(argv):
    if len(argv) >= 2 and argv[0] == "--replay":
        return runner.replay(argv[1])
    if len(argv) < 1:
        print("usage: check <Cxx> <quick|thorough> | --replay <path>")
        return 2
    pid = argv[0]
    tier = argv[1] if len(argv) > 1 else os.environ.get("VERIF_TIER", "quick")
    try:
        import importlib
        mod = importlib.import_module("vlib.props." + pid)
        if hasattr(mod, "main"):
            return mod.main(tier)
        return runner.run(pid, tier)
    except build.BuildError as e:
        sys.stderr.write("BUILD FAILED (not a violation):\n%s\n" % e)
        return 2


if __name__ == "__main__":
    sys.exit(main(sys.argv[1:]))
