"""Compile rendered program models with the system compilers, and run the
libabigail tools built from the working tree."""
import os, re, subprocess, shutil, signal
from . import build
from .gen import model as M

CC = {("gcc", "c"): "gcc", ("gcc", "cxx"): "g++", ("clang", "c"): "clang", ("clang", "cxx"): "clang++"}


class CompileError(Exception):
    pass


def write_files(d, files):
    os.makedirs(d, exist_ok=True)
    for rel, text in files.items():
        p = os.path.join(d, rel)
        os.makedirs(os.path.dirname(p), exist_ok=True)
        with open(p, "w") as f:
            f.write(text)


def sh(cmd, cwd=None, timeout=120, env=None, stdin=None):
    try:
        r = subprocess.run(cmd, cwd=cwd, stdout=subprocess.PIPE, stderr=subprocess.PIPE, timeout=timeout,
                           env=env, stdin=stdin if stdin is not None else subprocess.DEVNULL)
        return r.returncode, r.stdout, r.stderr
    except subprocess.TimeoutExpired as e:
        return -999, e.stdout or b"", e.stderr or b""


def compile_model(model, cfg, d, out="lib.so", files=None, extra_cflags=(), nodebug_tus=(), extra_ld=(),
                  incdirs=()):
    """Render `model` into directory d and build it per cfg.  Returns path of the binary."""
    files = files if files is not None else M.render_files(model)
    write_files(d, files)
    lang = model["lang"]
    cc = CC[(cfg.get("cc", "gcc"), lang)]
    ext = ".cc" if lang == "cxx" else ".c"
    srcs = sorted(f for f in files if f.endswith(ext))
    if model.get("tu_order_reversed"):
        srcs = srcs[::-1]      # order of the objects on the link line = order of the compilation units in .debug_info
    kind = cfg.get("kind", "shared")
    cflags = ["-gdwarf-%d" % cfg.get("dwarf", 5), cfg.get("opt", "-O0"), "-w"]
    if kind in ("shared", "pie"):
        cflags.append("-fPIC")
    if lang == "c":
        cflags.append("-std=gnu11")
    else:
        cflags.append("-std=gnu++14")
    cflags += list(cfg.get("cflags", [])) + list(extra_cflags) + ["-I" + i for i in incdirs]
    objs = []
    for k, s in enumerate(srcs):
        o = s[:-len(ext)] + ".o"
        k = int(re.search(r"tu(\d+)", s).group(1)) if re.search(r"tu(\d+)", s) else k
        fl = [f for f in cflags if not (k in nodebug_tus and f.startswith("-g"))]
        if k in nodebug_tus:
            fl.append("-g0")
        rc, so, se = sh([cc] + fl + ["-c", s, "-o", o], cwd=d)
        if rc != 0:
            raise CompileError("%s %s: %s" % (cc, s, se.decode(errors="replace")[-2000:]))
        objs.append(o)
    ld = []
    vs = M.version_script(model)
    if kind == "shared":
        ld = ["-shared"]
        if vs:
            with open(os.path.join(d, "vers.map"), "w") as f:
                f.write(vs)
            ld.append("-Wl,--version-script=vers.map")
        if cfg.get("soname"):
            ld.append("-Wl,-soname," + cfg["soname"])
    elif kind == "rel":
        rc, so, se = sh(["ld", "-r"] + objs + ["-o", out], cwd=d)
        if rc != 0:
            raise CompileError("ld -r: " + se.decode(errors="replace")[-2000:])
        return os.path.join(d, out)
    elif kind == "pie":
        ld = ["-pie", "-Wl,-E", "-nostartfiles", "-Wl,-e,0"]
    elif kind == "exe":
        ld = ["-no-pie", "-Wl,-E", "-nostartfiles", "-Wl,-e,0"]
    if cfg.get("linker") == "lld":
        ld.append("-fuse-ld=lld")
    if cfg.get("hash"):
        ld.append("-Wl,--hash-style=" + cfg["hash"])
    rc, so, se = sh([cc] + ld + list(extra_ld) + objs + ["-o", out], cwd=d)
    if rc != 0:
        raise CompileError("link: " + se.decode(errors="replace")[-2000:])
    return os.path.join(d, out)


# --------------------------------------------------------------------------

_EMPTY = None


def tool_env(extra=None):
    global _EMPTY
    if _EMPTY is None:
        _EMPTY = os.path.join(build.BUILD, "emptyhome")
        os.makedirs(_EMPTY, exist_ok=True)
    env = {"PATH": os.environ.get("PATH", "/usr/bin:/bin"), "HOME": _EMPTY, "LC_ALL": "C",
           "LIBABIGAIL_DEFAULT_SYSTEM_SUPPRESSION_FILE": "/nonexistent/sys.abignore",
           "LIBABIGAIL_DEFAULT_USER_SUPPRESSION_FILE": "/nonexistent/user.abignore",
           "ASAN_OPTIONS": "detect_leaks=0:halt_on_error=1:exitcode=99:abort_on_error=0",
           "UBSAN_OPTIONS": "halt_on_error=1:exitcode=98:print_stacktrace=1",
           "TSAN_OPTIONS": "exitcode=97:halt_on_error=0"}
    if extra:
        env.update(extra)
    return env


class Run:
    __slots__ = ("cmd", "rc", "out", "err", "timeout")

    def __init__(self, cmd, rc, out, err):
        self.cmd, self.rc, self.out, self.err = cmd, rc, out, err
        self.timeout = rc == -999

    def text(self):
        return self.out.decode(errors="replace")

    def etext(self):
        return self.err.decode(errors="replace")

    def brief(self):
        return {"cmd": " ".join(self.cmd), "rc": self.rc, "stdout": self.text()[:3000], "stderr": self.etext()[:1500]}


def tool(name, args, variant="plain", cwd=None, timeout=120, env=None, wrapper=()):
    exe = os.path.join(build.BUILD, variant, "bin", name)
    cmd = list(wrapper) + [exe] + list(args)
    rc, so, se = sh(cmd, cwd=cwd, timeout=timeout, env=tool_env(env))
    return Run([name] + list(args), rc, so, se)


def crashed(run):
    """Signal death or sanitizer exit code."""
    return run.rc < 0 and run.rc != -999 or run.rc in (97, 98, 99) or run.rc >= 128


import re as _re
import signal as _signal


def _short_fn(sig):
    """'virtual void abigail::comparison::default_reporter::report(const abigail::comparison::qualified_type_diff&, ...) const'
    -> 'default_reporter::report(qualified_type_diff)'"""
    m = _re.search(r"([\w:~<>]+)\s*\((.*)\)", sig)
    if not m:
        return sig.strip()[:80]
    name = m.group(1).split("::")
    name = "::".join(name[-2:]) if len(name) >= 2 else name[-1]
    first = m.group(2).split(",")[0]
    ids = _re.findall(r"[A-Za-z_]\w*", first)
    ids = [i for i in ids if i not in ("const", "abigail", "ir", "comparison", "std", "xml_reader", "dwarf_reader",
                                       "suppr", "ini", "tools_utils", "shared_ptr", "__cxx11", "basic_string")]
    return "%s(%s)" % (name, ids[0] if ids else "")


def crash_key(run):
    """Stable key of a crash: assertion site (file + function), sanitizer error kind + first libabigail frame, or signal."""
    err = run.etext()
    m = _re.search(r"VERIF-ASSERT site=(\S+?):(\S+) expr=(.*?) line=\d+", err)
    if m:
        return "assert:%s:%s:%s" % (os.path.basename(m.group(1)), m.group(2), m.group(3).strip()[:60])
    m = _re.search(r"([\w./-]+\.(?:cc|h)):\d+: (.*?): Assertion `(.*?)' failed", err)
    if m:
        return "assert:%s:%s" % (os.path.basename(m.group(1)), _short_fn(m.group(2)))
    m = _re.search(r"ERROR: AddressSanitizer: ([\w-]+)", err)
    if m:
        fr = _re.search(r"#\d+ 0x[0-9a-f]+ in (abigail::[^\s(]+)", err)
        return "asan:%s:%s" % (m.group(1), fr.group(1) if fr else "?")
    m = _re.search(r"([\w./-]+):(\d+):\d+: runtime error: (.*)", err)
    if m:
        return "ubsan:%s:%s" % (os.path.basename(m.group(1)), _re.sub(r"0x[0-9a-f]+|\d+", "N", m.group(3))[:60])
    if run.rc < 0 and run.rc != -999:
        try:
            return "signal:" + _signal.Signals(-run.rc).name
        except ValueError:
            return "signal:%d" % -run.rc
    return "exit:%d" % run.rc
