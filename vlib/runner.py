"""Parallel Hypothesis runner: 16 seeded workers, shrinking, 3x replay,
known-finding classification, evidence."""
import os, sys, json, time, shutil, traceback, collections, multiprocessing, importlib, hashlib
from . import build
from .gen import model as M

VERIF = build.VERIF
NWORK = int(os.environ.get("VERIF_WORKERS", "16"))


class Violation(Exception):
    def __init__(self, key, detail):
        Exception.__init__(self, key)
        self.key = key
        self.detail = detail


class Inconclusive(Exception):
    pass


class StopShrink(BaseException):
    pass


def load_known(pid):
    p = os.path.join(VERIF, "known_findings.json")
    if not os.path.exists(p):
        return {}
    out = {}
    for e in json.load(open(p)):
        if e["property"] == pid and e["status"] == "known":
            out[e["key"]] = e
    return out


class Cx:
    """Per-worker context handed to run_case."""

    def __init__(self, pid, tier, wdir, known):
        self.pid, self.tier, self.wdir, self.known = pid, tier, wdir, known
        self.evaluations = 0
        self.nontrivial = set()
        self.classes = collections.Counter()
        self.samples = []
        self.known_hits = collections.Counter()
        self.known_detail = {}
        self.excluded = collections.Counter()
        self.inconclusive = 0
        self.extra = collections.Counter()
        self._n = 0

    def dir(self, name="case"):
        d = os.path.join(self.wdir, name)
        shutil.rmtree(d, ignore_errors=True)
        os.makedirs(d)
        return d

    def cls(self, *labels):
        for l in labels:
            self.classes[l] += 1

    def nt(self, obj):
        self.nontrivial.add(obj if isinstance(obj, str) and len(obj) == 16 else M.sha(obj))

    def sample(self, obj, cap=4):
        if len(self.samples) < cap:
            self.samples.append(obj)

    def violation(self, key, detail):
        """Known keys are counted and the search goes on; unknown keys stop the case."""
        if key in self.known:
            self.known_hits[key] += 1
            self.known_detail.setdefault(key, detail)
            return
        raise Violation(key, detail)

    def dump(self):
        return {"evaluations": self.evaluations, "nontrivial": sorted(self.nontrivial),
                "classes": dict(self.classes), "samples": self.samples, "known_hits": dict(self.known_hits),
                "known_detail": self.known_detail, "excluded": dict(self.excluded),
                "inconclusive": self.inconclusive, "extra": dict(self.extra)}


def _worker(modname, pid, tier, k, seedv, nex, outp, shrink_budget):
    from hypothesis import given, settings, seed, HealthCheck, Phase
    mod = importlib.import_module(modname)
    wdir = os.path.join(build.BUILD, "scratch", pid, "w%d" % k)
    shutil.rmtree(wdir, ignore_errors=True)
    os.makedirs(wdir, exist_ok=True)
    cx = Cx(pid, tier, wdir, load_known(pid))
    state = {"fail": None, "t_first": None, "best": None}

    @seed(seedv)
    @settings(max_examples=nex, database=None, deadline=None, derandomize=False,
              report_multiple_bugs=False, suppress_health_check=list(HealthCheck),
              phases=[Phase.generate, Phase.shrink])
    @given(mod.strategy(tier))
    def test(case):
        if state["t_first"] is not None and time.time() - state["t_first"] > shrink_budget:
            # shrink budget exhausted: leave Hypothesis with the best failing example found so far
            raise StopShrink()
        cx.evaluations += 1
        try:
            mod.run_case(case, cx)
        except Violation as v:
            if state["t_first"] is None:
                state["t_first"] = time.time()
            state["best"] = M.canon(case)
            state["fail"] = {"key": v.key, "detail": v.detail, "case": case}
            raise
        except Inconclusive:
            cx.inconclusive += 1

    res = {"worker": k, "seed": seedv}
    try:
        test()
    except (Violation, StopShrink):
        res["failure"] = state["fail"]
    except Exception as e:
        # an exception that is not a Violation is a harness problem, never a property violation
        res["harness_error"] = "".join(traceback.format_exception(type(e), e, e.__traceback__))[-6000:]
        if state["fail"]:
            res["failure"] = state["fail"]
    res["stats"] = cx.dump()
    with open(outp, "w") as f:
        json.dump(res, f)


def replay_case(mod, pid, tier, case, tag="replay", known=None):
    """Run one case outside Hypothesis.  Returns (key, detail) or None; known keys are not filtered."""
    wdir = os.path.join(build.BUILD, "scratch", pid, tag)
    shutil.rmtree(wdir, ignore_errors=True)
    os.makedirs(wdir, exist_ok=True)
    cx = Cx(pid, tier, wdir, known or {})
    try:
        mod.run_case(case, cx)
    except Violation as v:
        return (v.key, v.detail), cx
    except Inconclusive:
        return None, cx
    return None, cx


def save_replay(pid, case, key, detail):
    h = hashlib.sha1((key + M.canon(case)).encode()).hexdigest()[:12]
    d = os.path.join(build.BUILD, "replays", pid, h)
    os.makedirs(d, exist_ok=True)
    with open(os.path.join(d, "case.json"), "w") as f:
        json.dump({"property": pid, "key": key, "case": case, "detail": detail}, f, indent=1, default=str)
    return d


def write_evidence(pid, tier, seedv, level, coverage, wall, violations, assumptions):
    os.makedirs(os.path.join(VERIF, "evidence"), exist_ok=True)
    ev = {"property_id": pid, "tier": tier, "seed": seedv, "level": level, "coverage": coverage,
          "assumptions": assumptions, "wall_s": round(wall, 2), "violations": violations}
    with open(os.path.join(VERIF, "evidence", pid + ".json"), "w") as f:
        json.dump(ev, f, indent=1, default=str)


def finish(pid, tier, seedv, mod, merged, failures, t0, harness_errors=()):
    """Common tail: classify failures, print lines, write evidence, return exit code."""
    known = load_known(pid)
    nviol = 0
    lines = []
    for key, (case, detail) in failures.items():
        d = save_replay(pid, case, key, detail)
        lines.append("VIOLATION property=%s replay=%s" % (pid, d))
        sys.stderr.write("[%s] violation key=%s detail=%s\n" % (pid, key, json.dumps(detail, default=str)[:2000]))
        nviol += 1
    for key, e in known.items():
        n = merged["known_hits"].get(key, 0)
        if n:
            lines.append("KNOWN-FINDING: property=%s %s: %s (reproduced %d times this run)" % (pid, key, e["what"], n))
        else:
            sys.stderr.write("[%s] listed known finding %s was not reproduced in this run\n" % (pid, key))
    cov = {"evaluations": merged["evaluations"], "distinct_nontrivial": len(merged["nontrivial"]),
           "rule": getattr(mod, "RULE", ""), "samples": merged["samples"][:5],
           "case_classes": dict(sorted(merged["classes"].items())),
           "excluded_known": merged["excluded"], "known_findings_confirmed": merged["known_hits"],
           "inconclusive": merged["inconclusive"], "extra": merged.get("extra", {}),
           "exhaustive": bool(merged.get("exhaustive", False))}
    if harness_errors:
        cov["harness_errors"] = list(harness_errors)[:3]
    write_evidence(pid, tier, seedv, getattr(mod, "LEVEL", "exploration"), cov, time.time() - t0, nviol,
                   getattr(mod, "ASSUMPTIONS", []))
    for l in lines:
        print(l)
    sys.stdout.flush()
    if harness_errors and not nviol:
        sys.stderr.write("[%s] HARNESS ERROR (not a violation):\n%s\n" % (pid, harness_errors[0]))
        return 3
    return 1 if nviol else 0


def merge_stats(stats_list):
    merged = {"evaluations": 0, "nontrivial": set(), "classes": collections.Counter(), "samples": [],
              "known_hits": collections.Counter(), "known_detail": {}, "excluded": collections.Counter(),
              "inconclusive": 0, "extra": collections.Counter()}
    for s in stats_list:
        merged["evaluations"] += s["evaluations"]
        merged["nontrivial"] |= set(s["nontrivial"])
        merged["classes"].update(s["classes"])
        merged["samples"] += s["samples"][:2]
        merged["known_hits"].update(s["known_hits"])
        merged["excluded"].update(s["excluded"])
        merged["inconclusive"] += s["inconclusive"]
        merged["extra"].update(s.get("extra", {}))
        for k, v in s.get("known_detail", {}).items():
            merged["known_detail"].setdefault(k, v)
    merged["known_hits"] = dict(merged["known_hits"])
    merged["excluded"] = dict(merged["excluded"])
    merged["extra"] = dict(merged["extra"])
    return merged


def run(pid, tier, modname=None):
    t0 = time.time()
    modname = modname or "vlib.props." + pid
    mod = importlib.import_module(modname)
    seedv = int(os.environ.get("VERIF_SEED", "1") or "1") or 1
    for v in getattr(mod, "VARIANTS", ["plain"]):
        build.ensure(v)
    if hasattr(mod, "prepare"):
        mod.prepare(tier)
    n = int(os.environ.get("VERIF_N") or mod.N[tier])   # VERIF_N: development override only
    nw = min(NWORK, max(1, n // 4))
    per = (n + nw - 1) // nw
    rdir = os.path.join(build.BUILD, "run", pid)
    shutil.rmtree(rdir, ignore_errors=True)
    os.makedirs(rdir)
    known = load_known(pid)
    stats = []
    failures = {}
    harness_errors = []
    # 1. witnesses of known findings and regression corpus (replay tier)
    pre = Cx(pid, tier, os.path.join(build.BUILD, "scratch", pid, "pre"), known)
    os.makedirs(pre.wdir, exist_ok=True)
    for sub, must in (("findings", None), ("corpus", "pass")):
        cdir = os.path.join(VERIF, sub, pid)
        if not os.path.isdir(cdir):
            continue
        for fn in sorted(os.listdir(cdir)):
            if not fn.endswith(".json"):
                continue
            rec = json.load(open(os.path.join(cdir, fn)))
            pre.evaluations += 1
            try:
                mod.run_case(rec["case"], pre)
            except Violation as v:
                failures.setdefault(v.key, (rec["case"], v.detail))
            except Inconclusive:
                pre.inconclusive += 1
    stats.append(pre.dump())
    # 2. generated search
    ctx = multiprocessing.get_context("fork")
    procs = []
    budget = 30 if tier == "quick" else 180
    for k in range(nw):
        outp = os.path.join(rdir, "w%d.json" % k)
        p = ctx.Process(target=_worker, args=(modname, pid, tier, k, seedv * 1000 + k, per, outp, budget))
        p.start()
        procs.append((p, outp))
    for p, outp in procs:
        p.join()
        if not os.path.exists(outp):
            harness_errors.append("worker died without result (exit %s)" % p.exitcode)
            continue
        res = json.load(open(outp))
        stats.append(res["stats"])
        if "harness_error" in res:
            harness_errors.append(res["harness_error"])
        if res.get("failure"):
            f = res["failure"]
            # 3x replay before believing it
            ok = 0
            for i in range(3):
                r, _ = replay_case(mod, pid, tier, f["case"], "confirm")
                if r and r[0] == f["key"]:
                    ok += 1
            if ok == 3:
                old = failures.get(f["key"])
                if old is None or len(M.canon(f["case"])) < len(M.canon(old[0])):
                    failures[f["key"]] = (f["case"], f["detail"])
            else:
                harness_errors.append("flaky failure %s reproduced %d/3: %s" % (f["key"], ok, json.dumps(f["detail"], default=str)[:1500]))
    merged = merge_stats(stats)
    if hasattr(mod, "post"):
        mod.post(merged)
    # flaky-only is not a harness error that should fail the check; record it
    flaky = [h for h in harness_errors if h.startswith("flaky failure")]
    hard = [h for h in harness_errors if not h.startswith("flaky failure")]
    if flaky:
        merged["extra"]["flaky"] = len(flaky)
        sys.stderr.write("\n".join(flaky) + "\n")
    shutil.rmtree(os.path.join(build.BUILD, "scratch", pid), ignore_errors=True)
    return finish(pid, tier, seedv, mod, merged, failures, t0, hard)


def replay(path):
    if os.path.isdir(path):
        path = os.path.join(path, "case.json")
    rec = json.load(open(path))
    pid = rec["property"]
    mod = importlib.import_module(getattr(rec, "module", None) or MODULES.get(pid, "vlib.props." + pid))
    if "fuzz_input" in rec:
        from . import fuzzprop
        if hasattr(mod, "prepare_env"):
            mod.prepare_env()
        return fuzzprop.replay(pid, mod, os.path.dirname(path))
    if hasattr(mod, "replay_record"):
        return mod.replay_record(rec, os.path.dirname(path))
    for v in getattr(mod, "VARIANTS", ["plain"]):
        build.ensure(v)
    if hasattr(mod, "prepare"):
        mod.prepare("quick")
    r, cx = replay_case(mod, pid, "quick", rec["case"], "replay", {})
    if r:
        print("VIOLATION property=%s replay=%s" % (pid, os.path.dirname(path)))
        print(json.dumps({"key": r[0], "detail": r[1]}, indent=1, default=str)[:6000])
        return 1
    print("replay of %s: property held" % path)
    return 0


MODULES = {}
