"""Static description of the registered checks (source of MANIFEST.json)."""

HOOK_COMMITS = ["a6e3c163", "a2efab50"]

ENGINES = [
    {"name": "progfuzz", "path": "vlib/gen, vlib/runner.py, vlib/props", "kind_free_text":
        "Hypothesis-generated program models -> gcc/clang -> libabigail tools; oracle computed from the model; 16 seeded workers; shrinking; 3x replay",
     "serves_properties": []},
    {"name": "sched", "path": "cxx/c32_sched.cc, vlib/props/C32.py, /repo/src/verif-hooks.h", "kind_free_text":
        "deterministic scheduler owning every pthread call of abg-workers.cc; stateless DFS over schedules with preemption bound; random schedules",
     "serves_properties": []},
    {"name": "fuzz", "path": "cxx/fuzz_*.cc, vlib/fuzzprop.py", "kind_free_text":
        "libFuzzer targets (fork mode, 14+2 jobs) with semantic oracle and assertion capture inside the target; artifacts are re-run alone and keyed by assertion site / sanitizer error",
     "serves_properties": []},
    {"name": "faultinj", "path": "vlib/props/C36.py", "kind_free_text":
        "strace-based syscall fault injection on the output descriptor, enumerated over all output calls of a run",
     "serves_properties": []},
    {"name": "apicheck", "path": "cxx/*.cc, vlib/cxxprop.py", "kind_free_text":
        "rapidcheck / exhaustive enumeration against libabigail.a built from the working tree",
     "serves_properties": []},
]

HARNESSES = [
    (("c38_diffutils", "plain", ["c38_diffutils.cc"]), {"extra_ld": ["-lrapidcheck"]}),
    (("c39_ini", "plain", ["c39_ini.cc"]), {"extra_ld": ["-lrapidcheck"]}),
    (("c41_helpers", "plain", ["c41_helpers.cc"]), {"extra_ld": ["-lrapidcheck"]}),
    (("c42_interned", "plain", ["c42_interned.cc"]), {"extra_ld": ["-lrapidcheck"]}),
    (("c27_regex", "plain", ["c27_regex.cc"]), {"extra_ld": ["-lrapidcheck"]}),
    (("c21_eqhash", "plain", ["c21_eqhash.cc"]), {"extra_ld": []}),
    (("c32_sched", "plain", ["c32_sched.cc"]), {"extra_ld": []}),
    (("fuzz_abixml", "asan", ["fuzz_abixml.cc"]), {"extra_flags": ["-fsanitize=fuzzer-no-link", "-DVERIF_ASSERT_STRONG"], "extra_ld": ["-fsanitize=fuzzer"]}),
    (("fuzz_suppr", "asan", ["fuzz_suppr.cc"]), {"extra_flags": ["-fsanitize=fuzzer-no-link", "-DVERIF_ASSERT_STRONG"], "extra_ld": ["-fsanitize=fuzzer"]}),
]

_T1 = "trusted base: system gcc/clang/ld/readelf, CPython + Hypothesis, the model/renderer in vlib/gen; tools are rebuilt from /repo's working tree (g++ -O1, asserts live)"
_T3 = "trusted base: clang 14 libFuzzer + ASan/UBSan runtimes; libxml2 / elfutils / glibc regex are not instrumented; target sources in cxx/fuzz_*.cc"
_T2 = "trusted base: g++, rapidcheck, the reference implementation inside the harness; harness linked against libabigail.a rebuilt from /repo's working tree"

REG = {
    "C01": dict(engine="progfuzz", technique="property-based testing (Hypothesis program generation, metamorphic self-comparison oracle)",
                text="Randomised exploration of the program space: every generated binary is compared with itself in four forms and seven option sets; held on all explored cases, no proof of absence.", note=_T1),
    "C02": dict(engine="progfuzz", technique="property-based testing (Hypothesis program generation, round-trip through ABIXML compared by abidiff in both orders + abidw --abidiff)",
                text="Generated programs x compilers x DWARF versions x binary kinds x subsets of the information-preserving abidw options; the ABIXML must compare equal to the binary both ways; exploration only.", note=_T1),
    "C04": dict(engine="progfuzz", technique="property-based testing (Hypothesis programs + metacharacter injection; independent expat parser and referential-integrity oracle)",
                text="Generated programs with symbol names, SONAME and directories carrying XML metacharacters; abidw output parsed by an independent XML parser, every referenced type id defined exactly once, every referenced symbol listed, injected names recovered; exploration only.", note=_T1),
    "C07": dict(engine="progfuzz", technique="property-based testing (Hypothesis program pairs with one documented-harmless mutation; expected verdict: silent by default, listed with --harmless)",
                text="Generated (P, H(P)) pairs over the five documented harmless changes; default run must exit 0, --harmless must set the change bit and name the change; one recorded deviation (inline non-virtual member function) is a known finding; exploration only.", note=_T1),
    "C08": dict(engine="progfuzz", technique="property-based testing (Hypothesis program pairs x option sets x suppressions + malformed command lines; invariant: exit-status lattice and agreement with the parsed summary)",
                text="Every generated comparison (16 option sets incl. section-selecting ones, suppressions) and malformed command lines of abidiff/abicompat/abipkgdiff: status is a combination of documented bits, 8=>4, 2=>1, and bit 4 <=> the summary lists a net change; exploration only.", note=_T1),
    "C11": dict(engine="progfuzz", technique="property-based testing (Hypothesis program pairs compared in both argument orders; set-equality relation Removed(A,B)=Added(B,A), Changed(A,B)=Changed(B,A))",
                text="Generated pairs incl. alias/binding/version changes and symbols without debug info, both orders; two recorded asymmetries of the tool are recognised entry by entry from the model and reported as known findings; exploration only.", note=_T1),
    "C12": dict(engine="progfuzz", technique="property-based testing (differential: same pair with and without random subsets of presentation options)",
                text="Generated pairs x three random subsets of the nine presentation options x four report modes; exit status and reported interface sets must equal the baseline run; exploration only.", note=_T1),
    "C13": dict(engine="progfuzz", technique="property-based testing (differential: default reporter vs --leaf-changes-only --impacted-interfaces on generated pairs, with and without suppressions)",
                text="Generated pairs with and without suppressions; leaf mode must set the same status bits and name every interface the default mode lists as changed; one recorded divergence (function suppressions) is a known finding; exploration only.", note=_T1),
    "C09": dict(engine="progfuzz", level="fault_enumeration", technique="fault enumeration over generated documents (every line-boundary prefix, generated byte corruptions, non-ABI files) with an independent well-formedness oracle (expat)",
                text="For each generated ABIXML document every proper prefix at a line boundary (every byte in the thorough tier for small documents) plus generated corruptions and non-ABI files is fed to abidiff (both operand positions, against the document and against the binary) and abicompat; whenever expat says the file cannot be loaded the error bit must be set; exhaustive over the prefixes of each document explored.", note=_T1 + "; expat"),
    "C36": dict(engine="faultinj", level="fault_enumeration", technique="fault enumeration: every k-th output system call of a generated run fails (strace syscall fault injection, ENOSPC / EIO), plus /dev/full",
                text="For generated documents the output system calls of abidw (stdout, --out-file) and abilint are counted, then each of them is made to fail in turn; a run with an injected failure must exit non-zero; exhaustive in k for every run explored.", note=_T1 + "; strace -e inject as the fault model"),
    "C10": dict(engine="progfuzz", technique="property-based testing (Hypothesis multi-change program pairs; arithmetic invariant between parsed summary, section headers and listed entries; differential --stat)",
                text="Generated pairs with several changes of mixed kinds (incl. versioned symbols without debug info) x report modes x generated suppressions; summary counts must equal section headers and listed entries, and --stat must print the same summary; exploration only.", note=_T1),
    "C05": dict(engine="progfuzz", technique="property-based testing (Hypothesis program pairs, model-derived expected verdict)",
                text="Generated (P, breaking M(P)) pairs; the model knows which interfaces a mutation touches, so a silent or mis-attributed report is detected; exploration only.", note=_T1),
    "C06": dict(engine="progfuzz", technique="property-based testing (Hypothesis program pairs, expected silence both argument orders)",
                text="Generated (P, neutral N(P)) pairs must compare clean in both orders; exploration only.", note=_T1),
    "C14": dict(engine="progfuzz", technique="property-based testing (metamorphic: same command under 4 environments - ASLR on/off, MALLOC_PERTURB_, arena count, cwd - must give byte-identical output)",
                text="Six abidw/abidiff/abipkgdiff commands per generated pair, each run under four environment perturbations; byte equality of stdout and equal status; exploration only (only the perturbations listed are provoked).", note=_T1),
    "C15": dict(engine="progfuzz", technique="property-based testing (differential against a compiled probe: sizeof / offsetof / bit-field scans / base-pointer conversions by the same compiler and flags vs the sizes and offsets in abidw's output)",
                text="Generated C/C++ libraries incl. bit-fields, anonymous members, base classes, same-named TU-private types; every size and member/base/bit-field offset recorded in the ABIXML must equal what a probe program compiled with the same compiler prints; exploration only.", note=_T1),
    "C16": dict(engine="progfuzz", technique="property-based testing (structural walk of the generator's type model against the ABIXML type graph read with expat, guarded by the compiler's own DWARF parameter counts)",
                text="Generated C/C++ libraries; every exported function's return type, parameter count, parameter types and variadic marker and every exported variable's type are matched against abidw's output (typedefs, qualifiers, pointers, references, arrays, function types, builtin spellings); only the two documented normalisations and compiler-level spelling freedoms are accepted; exploration only.", note=_T1),
    "C17": dict(engine="progfuzz", technique="property-based testing (Hypothesis libraries mixing -g and non -g translation units; oracle A: expat+readelf accounting of declarations vs symbols; oracle B: exactly-once placement of removed interfaces in abidiff's sections)",
                text="Generated C libraries with aliases, weak, hidden, static definitions and translation units without debug info; every exported interface must be attached to exactly one declaration or be a bare symbol, and each removed interface must show up exactly once in the right section; exploration only.", note=_T1),
    "C20": dict(engine="progfuzz", technique="property-based testing (generated hard type graphs fed to the library's own canonicalization self-checks in a -DWITH_DEBUG_TYPE_CANONICALIZATION -DWITH_DEBUG_SELF_COMPARISON build)",
                text="Generated recursive / anonymous / same-named / C++ class types; abidw --debug-tc and --debug-abidiff must stay silent; diagnostics are keyed by message family and kind of type so that the two families seen on every input (function / method types, the void id) are known findings and any other kind is a violation; exploration only.", note=_T1 + "; the library's debug self-checks"),
    "C21": dict(engine="apicheck", technique="property-based testing (generated program pairs loaded into one environment by a C++ executor; algebraic laws over all enumerated artifact pairs: symmetry of ==, == implies equal hash, compute_diff has_changes <=> !=)",
                text="Generated (P, P') pairs; the executor enumerates same-identity functions/variables across the corpora and all pairs of named types of a corpus (up to 1830 pairs per case) through the public API; two aborts of the diff engine (array subranges, duplicated anonymous member) are known findings; exploration only.", note=_T2 + "; program generator of vlib/gen"),
    "C22": dict(engine="progfuzz", technique="property-based testing (differential: report with an unsatisfiable generated suppression file vs report without)",
                text="Generated pairs x suppression files whose every section is unsatisfiable by construction of the programs; output and status must equal the baseline; two recorded defects (bare symbols, drop path) are known findings recognised from the diff shape / by re-running without drop; exploration only.", note=_T1),
    "C18": dict(engine="progfuzz", technique="property-based testing (differential against readelf: multiset of symbol attributes and alias groups)",
                text="Generated binaries (shared/PIE/exe/relocatable, bfd/lld, aliases, weak, IFUNC, TLS, common, versions, with/without -g); abidw's symbol tables must equal readelf's public defined function/data symbols attribute by attribute; exploration only.", note=_T1),
    "C19": dict(engine="progfuzz", technique="property-based testing (generated pairs of debug-info-less binaries; oracle: set difference of readelf symbol sets under the documented re-export rule)",
                text="Generated stripped pairs with additions, removals, alias/binding/version changes; reported removed/added symbols must equal readelf's set difference, removal => INCOMPATIBLE, equal sets => exit 0; one recorded defect (alias additions) is a known finding; exploration only.", note=_T1),
    "C23": dict(engine="progfuzz", technique="property-based testing (generated decoupled multi-change pairs x one targeted function/variable suppression; exact expected delta of entries and summary numbers)",
                text="Generated C pairs whose changed/added/removed interfaces have private causes; one generated section names one of them (name, name_regexp, symbol_name, symbol_name_regexp, symbol_version) with random change_kind; exactly that entry must vanish and exactly one summary column must move by one, or nothing at all when change_kind does not cover it; exploration only.", note=_T1),
    "C24": dict(engine="progfuzz", technique="property-based testing (control + treatment: a base type suppression must hide a generated struct change, the same section plus one violated constraint must not; layout model re-checked by _Static_assert)",
                text="Generated struct changes (insert at random position, remove, shrink, retype) x access path x one violated constraint (type_kind, source_location_not_in, accessed_through, insertion ranges under every reading the manual allows, invalid regexp); only cases whose control passes count; one recorded defect (accessed_through = direct) is a known finding; exploration only.", note=_T1),
    "C25": dict(engine="fuzz", technique="coverage-guided fuzzing (libFuzzer in-process, ASan+UBSan, grammar-aware custom mutator) of the suppression / whitelist readers with the suppressions applied late and early to pre-loaded corpora",
                text="Bytes -> read_suppressions and the KMI whitelist reader -> diff+report of three corpus pairs and a re-read of an ELF with the suppressions; sanitizer reports, aborts, assertions and reproducible hangs are violations; four crashes found this way were repaired; exploration only.", note=_T3),
    "C32": dict(engine="sched", technique="stateful testing with a harness-owned schedule (bounded-exhaustive depth-first enumeration of schedules for small configurations + seeded random schedules for large ones); invariant over the history of each run",
                text="The real worker queue runs under a deterministic scheduler installed through the LIBABIGAIL_VERIF hooks; every schedule with at most 2 preemptions and one spurious wake-up of 1-3 workers x 0-2 tasks is executed, plus random schedules up to 16 workers x 400 tasks; deadlock, a task performed other than once, a wrong completed list or a re-entrant notifier is a violation with the schedule as witness; exhaustive only within the stated bounds.", note="trusted base: the scheduler harness cxx/c32_sched.cc (mutex / condition-variable model), g++, pthreads; abg-workers.cc compiled with the hook guard on"),
    "C33": dict(engine="fuzz", technique="coverage-guided fuzzing (libFuzzer in-process, ASan+UBSan, structure-aware XML mutator, assertion capture) of the ABIXML reader + writer + self diff",
                text="Bytes -> xml_reader::read_corpus_from_input -> write_corpus + self compute_diff; the reader validates its input with ABG_ASSERT / abort() at many places: each (file, function) site found by saturation campaigns is a known finding that the target survives, any other site, any sanitizer report or hang is a violation; exploration only.", note=_T3),
    "C26": dict(engine="progfuzz", technique="property-based testing (generated public/private header splits x one mutation; model-derived expected verdict under --headers-dir / --header-file / --drop-private-types, with a no-option control)",
                text="Generated libraries whose types are split between a public and a private header; public-type mutations must stay reported, private-type mutations must be filtered, --drop-private-types must not change the public verdict; one recorded defect (category propagation through a private type) is a known finding; exploration only.", note=_T1),
    "C29": dict(engine="progfuzz", technique="property-based testing (generated library + really linked application using a random subset of interfaces + mutations inside / outside that subset; model-derived expected verdict, weak mode included)",
                text="Generated LIB1/APP/LIB2 triples; changes to used interfaces must be reported (removals as incompatible), changes confined to unused interfaces must leave the verdict of APP LIB1 LIB1, weak mode must report a layout mismatch of a type only a used function reaches; one recorded defect (application without variable references) is a known finding; exploration only.", note=_T1),
    "C30": dict(engine="progfuzz", technique="property-based testing (generated package directories / tar archives with unchanged, changed, removed and added libraries; differential against abidiff per pair + status invariants)",
                text="Generated package pairs; removed binary => change+incompatible bits, per-binary sections agree with abidiff on the same pair, exit 0 <=> nothing removed and all pairs clean; exploration only (no rpm/deb tooling in the sandbox).", note=_T1),
    "C35": dict(engine="progfuzz", technique="property-based testing / fuzzing of the tools with compiler-generated inputs under AddressSanitizer + UndefinedBehaviorSanitizer",
                text="The program-pair generator drives abidw, abilint, abidiff (ELF and ABIXML operands, three report modes), abidw --abidiff and abipkgdiff rebuilt with -fsanitize=address,undefined; any sanitizer report or fatal signal is a violation; exploration only (system libraries are not instrumented).", note=_T1 + "; clang ASan/UBSan runtime"),
    "C37": dict(engine="progfuzz", technique="property-based testing (generated shared objects x linker x hash style; differential against readelf for present symbols, constructed colliding absent names from re-implemented SysV/GNU hash functions)",
                text="Generated DSOs with 1-400 symbols, bfd/lld, sysv/gnu/both hash styles; abisym must find every defined dynamic symbol with readelf's version and no absent name that shares buckets and passes the bloom filter; exploration only.", note=_T1),
    "C38": dict(engine="apicheck", technique="exhaustive small-scope enumeration + rapidcheck against a reference LCS",
                text="All pairs of sequences up to length 6 (quick) / 8 (thorough) over 3 letters are enumerated (exhaustive for that scope) and random long sequences with non-trivial predicates are sampled; oracle is an independent O(nm) LCS.", note=_T2),
    "C39": dict(engine="apicheck", technique="rapidcheck round-trip (config->text->config and text->config->text->config)",
                text="Random configurations and grammar-derived texts; round-trip oracle on a normal form; exploration only.", note=_T2),
    "C41": dict(engine="apicheck", technique="rapidcheck against reference implementations of the helpers",
                text="Random well-formed names and strings compared with one-line reference definitions; exploration only.", note=_T2),
    "C42": dict(engine="apicheck", technique="rapidcheck model-based test (std::string as reference model)",
                text="Random string multisets interned in one pool; every pairwise operator compared with std::string; exploration only.", note=_T2),
    "C40": dict(engine="progfuzz", technique="property-based testing (cross-document relation: equal (kind, name) => equal hash id unless collision probing is evidenced)",
                text="Generated library pairs plus an unrelated third library, abidw --type-id-style hash; ids of named types occurring once in two documents must agree; exploration only.", note=_T1),
    "C43": dict(engine="progfuzz", technique="property-based testing (metamorphic: same sources, same compiler and codegen flags, two debug-info configurations => abidiff silent in both orders)",
                text="Generated programs compiled under pairs of debug-info configurations (DWARF 4/5, column info, strict DWARF, type units); type-unit cases are a recorded known finding kept to 15% of the cases; exploration only.", note=_T1),
}
for e in ENGINES:
    e["serves_properties"] = sorted(k for k, v in REG.items() if v["engine"] == e["name"])
