"""C42 — interned strings compare like their contents."""
from .. import cxxprop

PID = "C42"
LEVEL = "exploration"
HARNESS = "c42_interned"
SOURCES = ["c42_interned.cc"]
RULE = ('rapidcheck over multisets of up to ~12 strings (empty string, duplicates, prefixes and one-character extensions of other members, non-ASCII bytes) interned in one pool: for every ordered pair, ==, !=, raw-pointer identity, <, comparisons with std::string in both operand orders, hash equality for equal strings, concatenation and conversion back are compared with std::string as the reference model. Non-trivial: the multiset has both duplicates and distinct members. Counted by the harness.')
ASSUMPTIONS = []
COUNTS = {'quick': 16000, 'thorough': 400000}


def jobs(tier, seed):
    n = COUNTS[tier]
    return [(["--random"], {"RC_PARAMS": "seed=%d max_success=%d max_size=100" % (seed * 100 + k + 1, n // 8)}) for k in range(8)]


def main(tier):
    import sys
    return cxxprop.run(PID, tier, sys.modules[__name__])


def run_case(case, cx):
    rc, out = cxxprop.replay(HARNESS, "plain", SOURCES, case["witness"])
    if rc != 0:
        hit = False
        for l in out.splitlines():
            if l.startswith("FAIL "):
                hit = True
                cx.violation(l[5:].strip(), {"witness": case["witness"], "output": out[-1500:]})
        if not hit:
            cx.violation("crash:signal", {"witness": case["witness"], "output": out[-1500:]})
