"""C24 — type suppressions never hide changes that violate their constraints."""
import re, copy
from hypothesis import strategies as st
from ..gen import strategies as S, model as M, suppr
from .. import cbuild, pairs
from ..oracle import report as R
from ..runner import Inconclusive

PID = "C24"
LEVEL = "exploration"
N = {"quick": 500, "thorough": 8000}
RULE = ("A generated struct T (2-6 members of builtin / pointer types; C, or C++ when a reference is wanted) used by one "
        "exported function by value, through a pointer or through a reference, changed by one of: insertion of a member at a "
        "random position, removal of a member, shrinking, a size-preserving member type change. Control: `[suppress_type] name "
        "= T` must hide the change (otherwise the case is not counted). Treatment: the same section plus ONE constraint the "
        "change violates must NOT hide it: a wrong type_kind; source_location_not_in listing the defining header; an "
        "accessed_through value contradicting the access path (pointer / reference for by-value use, reference for pointer "
        "use); has_data_member_inserted_at / _between / has_data_members_inserted_between whose values (integers, end, "
        "offset_of, offset_after) exclude the insertion offset under every reading the manual allows (old or new layout, "
        "end of member or start of the next one; boundaries count as inside), or any such property combined with a removal "
        "or a shrink; and a section whose only name pattern is not a valid regular expression. Layouts come from an x86-64 "
        "layout model that the generated header re-checks with _Static_assert (a wrong model fails to compile). Non-trivial = "
        "control passed; distinct by SHA-1 of the case.")
ASSUMPTIONS = ["`name = T` and a second property are conjunctive", "the layout model is confirmed per case by _Static_assert"]

BT = {"char": (1, 1), "short": (2, 2), "int": (4, 4), "long": (8, 8), "float": (4, 4), "double": (8, 8), "unsigned char": (1, 1),
      "unsigned int": (4, 4), "long double": (16, 16), "ptr": (8, 8)}
# rejected by glibc regcomp(REG_EXTENDED) (checked with grep -E), and free of INI syntax ({ } , ; # \\ and blanks)
BAD_RX = ["[", "(", "[z-a]", "x[", "a(", "[[:foo:]]"]
ACCESS_DIRECT = "accessed_through-direct-is-unconstrained"
BADRX = "invalid-regexp-matches-every-name"


def layout(members):
    off, al, out = 0, 1, []
    for n, t in members:
        s, a = BT[t]
        off = (off + a - 1) // a * a
        out.append((n, off * 8, s * 8))
        off += s
        al = max(al, a)
    size = (off + al - 1) // al * al
    return out, size * 8


@st.composite
def strategy_(draw, tier):
    n = draw(st.integers(2, 6))
    types = list(BT)
    members = [("m%d" % i, S._pick(draw, types)) for i in range(n)]
    access = S._pick(draw, ["direct", "pointer", "pointer", "reference"])
    change = S._pick(draw, ["insert", "insert", "insert2", "insert2", "remove", "shrink", "retype"])
    new = list(members)
    info = {"change": change}
    if change == "insert":
        pos = draw(st.integers(0, n))
        new.insert(pos, ("ins", S._pick(draw, types)))
        info["pos"] = pos
    elif change == "insert2":
        # two members inserted at different places: one may satisfy an insertion constraint while the other violates it
        p1 = draw(st.integers(0, n))
        new.insert(p1, ("ins", S._pick(draw, types)))
        p2 = draw(st.integers(0, n + 1))
        new.insert(p2, ("ins2", S._pick(draw, types)))
    elif change == "remove":
        pos = draw(st.integers(0, n - 1))
        del new[pos]
    elif change == "shrink":
        # replace the widest member by char; only kept when the struct really gets smaller (checked at run time)
        pos = max(range(n), key=lambda i: BT[members[i][1]][0])
        new[pos] = (members[pos][0], "char")
    else:
        pos = draw(st.integers(0, n - 1))
        same = [t for t in types if BT[t] == BT[members[pos][1]] and t != members[pos][1]]
        if not same:
            same = ["ptr"] if members[pos][1] == "long" else []
        info["retype"] = S._pick(draw, same) if same else None
        if info["retype"]:
            new[pos] = (members[pos][0], info["retype"])
    treat = S._pick(draw, ["type_kind", "srcloc", "access", "access", "range", "range", "range", "badrx"])
    return {"members": members, "new": new, "access": access, "info": info, "treat": treat,
            "cfg": draw(S.build_config()), "r": [draw(st.integers(0, 10 ** 6)) for _ in range(6)]}


def strategy(tier):
    return strategy_(tier)


def render(members, access, cxx):
    lay, size = layout(members)
    tn = "T" if cxx else "struct T"
    h = ["#include <stddef.h>", "struct T {"]
    for n, t in members:
        h.append("  %s;" % ("void *%s" % n if t == "ptr" else "%s %s" % (t, n)))
    h.append("};")
    sa = "static_assert" if cxx else "_Static_assert"
    h.append('%s(sizeof(struct T) * 8 == %d, "size");' % (sa, size))
    for n, off, sz in lay:
        h.append('%s(offsetof(struct T, %s) * 8 == %d, "%s");' % (sa, n, off, n))
    par = {"direct": tn + " p", "pointer": tn + " *p", "reference": tn + " &p"}[access]
    src = ['#include "types.h"', ('extern "C" ' if cxx else "") + "int fn0(%s) { return 0; }" % par]
    return {"types.h": "\n".join(h) + "\n", "tu0.cc" if cxx else "tu0.c": "\n".join(src) + "\n"}


def candidates(expr, old, new, for_hi):
    """All values the manual's wording allows for a boundary expression (bits)."""
    lo_, so = layout(old)
    ln_, sn = layout(new)
    if isinstance(expr, int):
        return [expr]
    if expr == "end":
        # as a lower bound the implementation (and its test-suite) reads "end" as "after the last data member of the old
        # type"; as an upper bound, the end of either layout
        return [so, sn] if for_hi else [so, sn, lo_[-1][1] + 1]
    kind, name = expr
    out = []
    for lay, size in ((lo_, so), (ln_, sn)):
        for i, (n, off, sz) in enumerate(lay):
            if n == name:
                if kind == "offset_of":
                    out.append(off)
                else:
                    out.append(off + sz)
                    out.append(lay[i + 1][1] if i + 1 < len(lay) else size)
    return out


def fmt(expr):
    if isinstance(expr, int):
        return str(expr)
    if expr == "end":
        return "end"
    return "%s(%s)" % expr


def boundary(rnd, old):
    names = [n for n, t in old]
    c = rnd % 4
    if c == 0:
        return (rnd // 4) % 400
    if c == 1:
        return "end"
    return ("offset_of" if c == 2 else "offset_after", names[(rnd // 4) % len(names)])


def run_case(case, cx):
    old, new, access, info, cfg = case["members"], case["new"], case["access"], case["info"], case["cfg"]
    old = [tuple(x) for x in old]
    new = [tuple(x) for x in new]
    cxx = access == "reference"
    change = info["change"]
    if change == "retype" and not info.get("retype"):
        cx.cls("no-same-size-type")
        return
    (lo_, so), (ln_, sn) = layout(old), layout(new)
    if change == "shrink" and sn >= so:
        cx.cls("shrink-not-smaller")
        return
    d = cx.dir()
    model = {"lang": "cxx" if cxx else "c", "types": [], "funcs": [], "vars": []}
    try:
        b1 = cbuild.compile_model(model, cfg, d + "/v1", files=render(old, access, cxx))
        b2 = cbuild.compile_model(model, cfg, d + "/v2", files=render(new, access, cxx))
    except cbuild.CompileError as e:
        cx.cls("compile-error")
        cx.extra["compile_error:" + str(e)[-120:]] += 0
        raise Inconclusive(str(e))
    base = pairs.abidiff(cx, b1, b2)
    if cbuild.crashed(base):
        cx.violation("crash:" + cbuild.crash_key(base), base.brief())
        return
    if not base.rc & R.STATUS_CHANGE:
        cx.cls("change-not-reported-at-all")
        raise Inconclusive("baseline silent (C05's business)")

    def run(props, tag):
        sp = d + "/%s.suppr" % tag
        open(sp, "w").write(suppr.section("suppress_type", props))
        r = pairs.abidiff(cx, b1, b2, ["--suppressions", sp])
        cx.evaluations += 1
        return r, open(sp).read()

    ctl, ctext = run([("name", "T")], "control")
    if cbuild.crashed(ctl):
        cx.violation("crash:" + cbuild.crash_key(ctl), ctl.brief())
        return
    cx.cls("change=" + change, "access=" + access, "treat=" + case["treat"], "cc=" + cfg["cc"])
    if ctl.rc != 0:
        cx.cls("control-failed")
        cx.extra["control_failed:%s:%s" % (change, access)] += 1
        return
    cx.nt(case)
    r = case["r"]
    treat = case["treat"]
    props, expect_visible, known = [("name", "T")], True, None
    if treat == "type_kind":
        props.append(("type_kind", ["enum", "union", "typedef", "array"][r[0] % 4]))
    elif treat == "srcloc":
        props.append(("source_location_not_in", ["types.h", "types.h, other.h", "zzq.h, types.h"][r[0] % 3]))
    elif treat == "access":
        if access == "direct":
            props.append(("accessed_through", ["pointer", "reference", "reference-or-pointer"][r[0] % 3]))
        elif access == "pointer":
            v = ["reference", "direct"][r[0] % 2]
            props.append(("accessed_through", v))
            if v == "direct":
                known = ACCESS_DIRECT
        else:
            v = ["pointer", "direct"][r[0] % 2]
            props.append(("accessed_through", v))
            if v == "direct":
                known = ACCESS_DIRECT
    elif treat == "range":
        which = ["at", "between", "betweens"][r[0] % 3]
        inss = [off for n, off, sz in ln_ if n in ("ins", "ins2")]
        b1_, b2_ = boundary(r[1], old), boundary(r[2], old)
        inside_all = True
        if which == "at":
            # The manual says "inserted at an offset specified by the property value"; the implementation and the
            # suite's test11-add-data-member-2 read `= N` as "at N or anywhere after it".  Only an insertion strictly
            # before the point is outside under both readings.
            props.append(("has_data_member_inserted_at", fmt(b1_)))
            c1 = candidates(b1_, old, new, False)
            if not c1:
                return
            inside_all = all(not ins < min(c1) for ins in inss)
        else:
            c1, c2 = candidates(b1_, old, new, False), candidates(b2_, old, new, True)
            if not c1 or not c2:
                return
            if which == "between":
                props.append(("has_data_member_inserted_between", "{%s, %s}" % (fmt(b1_), fmt(b2_))))
                inside_all = all(not (ins < min(c1) or ins > max(c2)) for ins in inss)
            else:
                b3, b4 = boundary(r[3], old), boundary(r[4], old)
                c3, c4 = candidates(b3, old, new, False), candidates(b4, old, new, True)
                if not c3 or not c4:
                    return
                props.append(("has_data_members_inserted_between", "{{%s, %s}, {%s, %s}}" % (fmt(b1_), fmt(b2_), fmt(b3), fmt(b4))))
                inside_all = all((not (ins < min(c1) or ins > max(c2)) or not (ins < min(c3) or ins > max(c4))) for ins in inss)
        if change in ("insert", "insert2"):
            # visible is asserted as soon as ONE inserted member lies outside every range under every reading
            expect_visible = not inside_all
            cx.cls("%s-%s-range" % (change, "some-member-outside" if not inside_all else "all-maybe-inside"))
        elif change in ("remove", "shrink"):
            expect_visible = True
        else:
            # a member type change without any insertion: the statement lists removal, shrinking and insertions outside
            # the ranges as the cases the property must not hide; this one is not among them, so nothing is asserted
            expect_visible = False
            cx.cls("retype-with-insertion-constraint(unasserted)")
    elif treat == "badrx":
        props = [("name_regexp", BAD_RX[r[0] % len(BAD_RX)])]
        if r[1] % 3 == 0:
            props = [("name_not_regexp", BAD_RX[r[0] % len(BAD_RX)])]
        known = BADRX
    t, ttext = run(props, "treatment")
    cx.sample({"old": old, "new": new, "access": access, "suppr": ttext, "expect_reported": expect_visible, "rc": t.rc})
    if cbuild.crashed(t):
        cx.violation("crash:" + cbuild.crash_key(t), dict(t.brief(), suppr=ttext))
        return
    if not expect_visible:
        cx.cls("unasserted(range may contain the insertion)=%s" % ("hidden" if t.rc == 0 else "shown"))
        return
    if not t.rc & R.STATUS_CHANGE:
        det = {"old": old, "new": new, "access": access, "change": change, "suppr": ttext, "run": t.brief(),
               "layout_old": lo_, "layout_new": ln_}
        cx.violation(known or ("constraint-violated-but-change-hidden:%s:%s" % (treat, change)), det)
