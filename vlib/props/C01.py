"""C01 — comparing any binary with itself reports no ABI change."""
from hypothesis import strategies as st
from ..gen import strategies as S, model as M
from .. import cbuild
from ..runner import Inconclusive

PID = "C01"
LEVEL = "exploration"
N = {"quick": 640, "thorough": 12000}
RULE = ("Hypothesis-generated program models (C and C++) x compiler {gcc,clang} x DWARF {4,5} x binary kind "
        "{shared,rel,pie,exe} x comparison form {elf-elf, xml-xml, elf-xml, xml-elf} x abidiff option set; oracle: exit 0 "
        "and empty stdout. The ABIXML is what abidw writes by default, except that under --non-reachable-types the mixed "
        "forms use abidw --load-all-types (the default document omits unreachable types by design). Non-trivial = at least one exported interface reaches an aggregate or enum type; distinct by "
        "SHA-1 of (model, config, form, options).")
ASSUMPTIONS = ["system gcc/clang produce correct DWARF for the generated programs",
               "tools are rebuilt out-of-tree from /repo's working tree (g++ -O1, asserts live)"]

OPTSETS = [[], ["--leaf-changes-only"], ["--harmless"], ["--redundant"], ["--non-reachable-types"],
           ["--no-show-locs"], ["--stat"]]
FORMS = ["elf-elf", "xml-xml", "elf-xml", "xml-elf"]


@st.composite
def strategy_(draw, tier):
    big = tier == "thorough"
    m = draw(S.library(lang="any", max_types=12 if big else 8, max_funcs=8 if big else 6, symfeatures=True, tu_private=45, tdanon=20))
    cfg = draw(S.build_config(kinds=("shared", "shared", "rel", "pie", "exe")))
    form = S._pick(draw, FORMS)
    if big and draw(st.booleans()):
        k = draw(st.integers(1, 3))
        opts = sorted(set(sum((S._pick(draw, OPTSETS) for _ in range(k)), [])))
    else:
        opts = S._pick(draw, OPTSETS)
    return {"model": m, "cfg": cfg, "form": form, "opts": opts}


def strategy(tier):
    return strategy_(tier)


DUPANON = "self-diff-nonempty:anonymous-data-member-duplicated"


def duplicated_anonymous_member_only(text):
    import re
    lines = text.split("\n")
    ins = [l for l in lines if re.search(r"\d+ data member (insertion|deletion)s?:", l)]
    if not ins:
        return False
    # nothing but size-preserving, member-level statements may appear
    for l in lines:
        if re.search(r"size changed from|offset changed|was removed|was added|enumerator|base class|\\d+ Removed function|\\d+ Added function|"
                     r"\d+ Removed variable|\d+ Added variable|type name changed|entity changed", l) and "summary:" not in l:
            return False
    # each inserted / deleted member is anonymous, and the pair of flat representations differs by one repetition of it
    ok = False
    for k, l in enumerate(lines):
        if re.search(r"\d+ data member (insertion|deletion)s?:", l):
            nxt = lines[k + 1].strip() if k + 1 < len(lines) else ""
            if not re.match(r"^'(struct|union) \{", nxt):
                return False
    for k, l in enumerate(lines):
        if l.strip() == "type changed from:" and k + 3 < len(lines) and lines[k + 2].strip() == "to:":
            a, b = lines[k + 1].strip(), lines[k + 3].strip()
            longer, shorter = (a, b) if len(a) > len(b) else (b, a)
            extra = None
            for mm in re.finditer(r"(struct|union) \{[^{}]*\};", longer):
                seg = mm.group(0)
                if longer.count(seg) != shorter.count(seg) + 1:
                    continue
                first = longer.replace(seg, "", 1)
                last = longer[::-1].replace(seg[::-1], "", 1)[::-1]
                if shorter.replace(" ", "") in (first.replace(" ", ""), last.replace(" ", "")):
                    extra = seg
            if not extra:
                return False
            ok = True
    return ok


def nontrivial_model(m):
    idx = M.type_index(m)
    for k, i in M.exported(m):
        if any(idx[n]["kind"] in ("struct", "union", "enum", "class") for n in M.iface_reach(m, i)):
            return True
    return False


def run_case(case, cx):
    m, cfg = case["model"], case["cfg"]
    d = cx.dir()
    try:
        b = cbuild.compile_model(m, cfg, d)
    except cbuild.CompileError as e:
        cx.cls("compile-error")
        raise Inconclusive(str(e))
    cx.cls("lang=" + m["lang"], "cc=" + cfg["cc"], "dwarf=%d" % cfg["dwarf"], "kind=" + cfg["kind"],
           "form=" + case["form"], "opts=" + (" ".join(case["opts"]) or "default"))
    a1 = a2 = b
    if "xml" in case["form"]:
        # By default abidw emits only the types reachable from exported interfaces (doc/manuals/abidw.rst,
        # --load-all-types), so its output is not "the binary" as far as --non-reachable-types is concerned: comparing
        # it against the ELF file under that option legitimately lists the ELF file's unreachable types.  For the mixed
        # forms the ABIXML is therefore written with --load-all-types; xml-xml keeps the default document (both sides
        # carry the same information, and reading it under --non-reachable-types must work).
        loadall = "--non-reachable-types" in case["opts"] and case["form"] != "xml-xml"
        cx.cls("abidw=" + ("load-all-types" if loadall else "default"))
        r = cbuild.tool("abidw", (["--load-all-types"] if loadall else []) + [b])
        if r.rc != 0 or cbuild.crashed(r):
            cx.violation("abidw-failed", r.brief())
            return
        x = d + "/lib.abi"
        open(x, "wb").write(r.out)
        f1, f2 = case["form"].split("-")
        a1 = x if f1 == "xml" else b
        a2 = x if f2 == "xml" else b
    r = cbuild.tool("abidiff", ["--no-default-suppression"] + case["opts"] + [a1, a2])
    if nontrivial_model(m):
        cx.nt(case)
    cx.sample({"form": case["form"], "opts": case["opts"], "cfg": cfg, "types.h": M.render_header(m)[:800],
               "abidiff_rc": r.rc})
    if r.timeout:
        raise Inconclusive("timeout")
    if cbuild.crashed(r):
        cx.violation("crash:" + cbuild.crash_key(r), r.brief())
    elif r.rc != 0 or r.out.strip():
        # Recorded defect: the DWARF reader adds the anonymous data member of a self-referential union / struct a second
        # time when a second translation unit defines the same type, so the corpus read from ELF (and abidw's document,
        # which repeats the <data-member>) has it twice while the corpus read back from ABIXML has it once.  Recognised
        # from the tool's own full report: every reported change is the insertion / deletion of an anonymous member that
        # the other side's flat representation of the type already contains.
        h = cbuild.tool("abidiff", ["--no-default-suppression", "--harmless", "--redundant"] +
                        [o for o in case["opts"] if o == "--non-reachable-types"] + [a1, a2])
        if not cbuild.crashed(h) and duplicated_anonymous_member_only(h.text()):
            cx.violation(DUPANON, dict(r.brief(), full_report=h.text()[:1500]))
        else:
            cx.violation("self-diff-nonempty", r.brief())
