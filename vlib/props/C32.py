"""C32 — the worker queue performs every task exactly once and always drains."""
import os, json, time, subprocess, shutil, sys
from concurrent.futures import ThreadPoolExecutor
from .. import build, runner

PID = "C32"
RULE = ("The real abigail::workers::queue (abg-workers.cc compiled with -DLIBABIGAIL_VERIF, so that every pthread call of "
        "that file goes through verif_hooks::hooks()) driven by the harness cxx/c32_sched.cc, which owns the schedule: worker "
        "threads are real threads but only one runs at a time; every mutex / condition-variable / create / join call, the "
        "body of each task and the notifier are scheduling points (in the --fine configurations also the instant before the "
        "effect of unlock / cond_wait / signal / broadcast and the instant after a lock is acquired, so code between two "
        "hooked calls can be separated from them); the harness keeps mutex owners and condition-variable "
        "waiter sets, cond_signal wakes exactly one waiter chosen by the schedule, one spurious wake-up per run is allowed. A "
        "schedule is a sequence of choices. (a) Stateless depth-first enumeration of ALL schedules with at most B preemptions "
        "for small configurations (workers x tasks: 1x0..2, 2x0..2, 3x1; B = 2, or 1 for the largest): exhaustive for that "
        "bounded space. (b) Seeded random schedules for 2-16 workers x 5-400 tasks. Oracle over the history of each run: "
        "wait_for_workers_to_complete returns (a state with no enabled thread is a deadlock); every task's perform() ran "
        "exactly once; the completed tasks are a permutation of the scheduled ones; the notifier ran once per task and never "
        "re-entrantly. evaluations = schedules executed; non-trivial = schedules with at least one preemption; a failing "
        "schedule is printed as its choice sequence and replays with `c32_sched --replay W T c0,c1,...`.")
ASSUMPTIONS = ["sequentially consistent execution: one thread runs at a time, so only interleavings at the hooked calls are "
               "explored, not data races inside a critical section (those are C31's TSan tier)",
               "the preemption and spurious-wake-up bounds limit the enumerated space; within them the enumeration is complete"]

DFS = {"quick": [(1, 0, 2, 5000), (1, 1, 2, 5000), (1, 2, 2, 40000), (2, 0, 2, 20000), (2, 1, 2, 120000), (2, 2, 1, 60000),
                 (3, 1, 1, 150000), (3, 0, 1, 100000)],
       "thorough": [(1, 0, 3, 10 ** 6), (1, 1, 3, 10 ** 6), (1, 2, 3, 10 ** 6), (1, 3, 2, 10 ** 6), (2, 0, 3, 10 ** 6), (2, 1, 3, 3 * 10 ** 6),
                    (2, 2, 2, 3 * 10 ** 6), (2, 3, 2, 3 * 10 ** 6), (3, 0, 3, 3 * 10 ** 6), (3, 1, 2, 3 * 10 ** 6), (3, 2, 2, 3 * 10 ** 6),
                    (3, 3, 1, 3 * 10 ** 6), (3, 4, 1, 3 * 10 ** 6), (2, 4, 1, 3 * 10 ** 6)]}
# the same with the finer scheduling points (--fine): a yield also before the effect of unlock / cond_wait / signal /
# broadcast and after a lock is acquired, so that a predicate evaluated just before cond_wait, or a flag stored just after
# unlock, can be separated from the call by another thread (seeded change C32-1 needs exactly that)
DFS_FINE = {"quick": [(1, 0, 2, 5000), (1, 1, 2, 20000), (1, 2, 2, 60000), (2, 0, 2, 60000), (2, 1, 1, 100000), (3, 0, 1, 100000)],
            "thorough": [(1, 0, 3, 10 ** 6), (1, 1, 3, 10 ** 6), (1, 2, 3, 10 ** 6), (1, 3, 2, 10 ** 6), (2, 0, 3, 10 ** 6),
                         (2, 1, 2, 3 * 10 ** 6), (2, 2, 1, 3 * 10 ** 6), (3, 0, 2, 3 * 10 ** 6), (3, 1, 1, 3 * 10 ** 6)]}
RANDOM_FINE = {"quick": [(2, 5, 300), (4, 20, 100), (8, 50, 40), (3, 7, 300)],
               "thorough": [(2, 5, 10000), (4, 20, 4000), (8, 50, 2000), (16, 100, 600), (3, 7, 10000)]}
RANDOM = {"quick": [(2, 5, 400), (4, 20, 200), (8, 50, 100), (16, 100, 40), (16, 400, 8), (3, 7, 400)],
          "thorough": [(2, 5, 20000), (4, 20, 8000), (8, 50, 4000), (16, 100, 1500), (16, 2000, 40), (3, 7, 20000), (5, 13, 8000),
                       (12, 300, 300)]}


def replay_record(rec, where):
    exe = build.ensure_harness("c32_sched", "plain", ["c32_sched.cc"], extra_ld=[])
    out = os.path.join(build.BUILD, "run", PID + "-replay.json")
    os.makedirs(os.path.dirname(out), exist_ok=True)
    args = ["--replay", str(rec["workers"]), str(rec["tasks"]), rec["schedule"]] + (["--fine"] if rec.get("fine") else [])
    subprocess.run([exe] + args + ["--out", out], stdout=subprocess.PIPE, stderr=subprocess.PIPE, timeout=600)
    st = json.load(open(out))
    if st["failure"]:
        print("VIOLATION property=%s replay=%s" % (PID, where))
        print(json.dumps({"failure": st["failure"], "schedule": st["witness"]}))
        return 1
    print("replay of %s: property held" % where)
    return 0


def main(tier):
    t0 = time.time()
    seedv = int(os.environ.get("VERIF_SEED", "1") or "1") or 1
    exe = build.ensure_harness("c32_sched", "plain", ["c32_sched.cc"], extra_ld=[])
    rdir = os.path.join(build.BUILD, "run", PID)
    shutil.rmtree(rdir, ignore_errors=True)
    os.makedirs(rdir)
    jobs = [("dfs", ["--dfs", str(w), str(t), str(b), str(mx)]) for w, t, b, mx in DFS[tier]] + \
           [("dfs-fine", ["--dfs", str(w), str(t), str(b), str(mx), "--fine"]) for w, t, b, mx in DFS_FINE[tier]] + \
           [("random", ["--random", str(w), str(t), str(n), str(seedv * 97 + k)]) for k, (w, t, n) in enumerate(RANDOM[tier])] + \
           [("random-fine", ["--random", str(w), str(t), str(n), str(seedv * 89 + k), "--fine"])
            for k, (w, t, n) in enumerate(RANDOM_FINE[tier])]
    # regression / finding replays
    for sub in ("corpus", "findings"):
        d = os.path.join(build.VERIF, sub, PID)
        if os.path.isdir(d):
            for f in sorted(os.listdir(d)):
                rec = json.load(open(os.path.join(d, f)))
                jobs.append(("replay", ["--replay", str(rec["workers"]), str(rec["tasks"]), rec["schedule"]] +
                             (["--fine"] if rec.get("fine") else [])))

    def one(ij):
        i, (kind, args) = ij
        out = os.path.join(rdir, "r%d.json" % i)
        try:
            r = subprocess.run([exe] + args + ["--out", out], stdout=subprocess.PIPE, stderr=subprocess.PIPE, timeout=900 if tier == "quick" else 7200)
            rc = r.returncode
        except subprocess.TimeoutExpired:
            rc = -999
        try:
            st = json.load(open(out))
        except Exception:
            st = None
        return kind, args, rc, st

    with ThreadPoolExecutor(8) as ex:
        results = list(ex.map(one, enumerate(jobs)))
    known = runner.load_known(PID)
    evaluations = nontrivial = 0
    lines, nviol, samples, configs = [], 0, [], []
    all_exhausted = True
    for kind, args, rc, st in results:
        if st is None:
            # a harness that hangs or dies is a harness problem, never reported as a violation
            sys.stderr.write("[C32] harness run %s produced no result (rc=%s)\n" % (args, rc))
            return 3
        evaluations += st["runs"]
        nontrivial += st["nontrivial"]
        configs.append({"mode": kind, "workers": st["workers"], "tasks": st["tasks"], "schedules": st["runs"],
                        "exhausted_within_bound": st["exhausted"], "args": args[3:]})
        if kind.startswith("dfs") and not st["exhausted"] and not st["failure"]:
            all_exhausted = False
        for s in st["samples"][:1]:
            samples.append({"workers": st["workers"], "tasks": st["tasks"], "mode": kind, "schedule": s[:200]})
        if st["failure"]:
            key = st["failure"].split(":")[0].split(" ")[0] if st["failure"].startswith("deadlock") else st["failure"][:60]
            d = os.path.join(build.BUILD, "replays", PID, "w%dt%d-%d" % (st["workers"], st["tasks"], abs(hash(st["witness"])) % 10 ** 6))
            os.makedirs(d, exist_ok=True)
            fine = "--fine" in args
            json.dump({"property": PID, "key": key, "workers": st["workers"], "tasks": st["tasks"], "schedule": st["witness"],
                       "fine": fine, "failure": st["failure"],
                       "replay_cmd": "%s --replay %d %d %s%s" % (exe, st["workers"], st["tasks"], st["witness"], " --fine" if fine else "")},
                      open(os.path.join(d, "case.json"), "w"), indent=1)
            if key in known:
                lines.append("KNOWN-FINDING: property=%s %s: %s" % (PID, key, known[key]["what"]))
            else:
                lines.append("VIOLATION property=%s replay=%s" % (PID, d))
                sys.stderr.write("[C32] violation: %s (workers=%d tasks=%d) schedule=%s\n" % (st["failure"], st["workers"], st["tasks"], st["witness"][:300]))
                nviol += 1
    cov = {"evaluations": evaluations, "distinct_nontrivial": nontrivial, "rule": RULE, "samples": samples[:5], "configurations": configs,
           "exhaustive": bool(all_exhausted), "explanation": "exhaustive refers to the depth-first tier: every schedule within the stated "
           "preemption bound of each small configuration was executed; the random tier is sampling"}
    runner.write_evidence(PID, tier, seedv, "exploration", cov, time.time() - t0, nviol, ASSUMPTIONS)
    for l in lines:
        print(l)
    return 1 if nviol else 0
