"""C34 — reading any ELF input is memory-safe and never aborts in libabigail."""
import os, glob, shutil
from .. import build, cbuild, fuzzprop
from . import C25

PID = "C34"
HARNESS = "fuzz_elf"
SOURCES = ["fuzz_elf.cc"]
MAX_LEN = 262144
DICT = None
SECONDS = {"quick": 60, "thorough": 1200}
RULE = ("libFuzzer (in-process, ASan + UBSan, 14 forked jobs from a seed corpus + 2 from an empty corpus) on bytes -> file "
        "-> dwarf_reader::read_corpus_from_elf (with and without load-all-types; the corpus, when one results, is also "
        "written as ABIXML) and dwarf_reader::lookup_symbol_from_elf (abisym's path). ELF-aware custom mutator: for a random "
        "section among .symtab / .dynsym / .hash / .gnu.hash / .gnu.version* / .dynamic / string tables / relocation and "
        ".debug_* sections it overwrites sh_size, sh_link, sh_info, sh_entsize or sh_offset with boundary values, or one "
        "aligned 32-bit word of the section's contents (hash buckets and chains, bloom words, symbol fields, version indexes, "
        "DWARF bytes) with boundary values or an off-by-one; otherwise byte-level mutation. Seeds: small shared objects and "
        "relocatables (C with aliases / versions, C++ classes, no debug info, lld and bfd hash styles). Failures whose first "
        "non-sanitizer frame lies in libelf / libdw are classified `elfutils` and counted apart, as the statement "
        "prescribes. distinct non-trivial = corpus units at exit, capped by executions that produced a corpus.")
ASSUMPTIONS = ["elfutils is not instrumented: memory errors inside it are seen only when they fault"]


def make_seeds(dst, tier, seedv):
    data = os.path.join(build.BUILD, "fuzzdata", "C25")
    C25.make_data(data)
    n = 0
    for f in sorted(glob.glob(data + "/*.so")):
        shutil.copy(f, os.path.join(dst, os.path.basename(f)))
        n += 1
    d = os.path.join(dst, "..", "seedbuild")
    os.makedirs(d, exist_ok=True)
    open(os.path.join(d, "h.c"), "w").write("int fn0(void){return 0;} int var0; int fn0_al(void) __attribute__((alias(\"fn0\")));\n")
    for k, extra in enumerate((["-Wl,--hash-style=sysv"], ["-Wl,--hash-style=gnu"], ["-fuse-ld=lld", "-Wl,--hash-style=both"])):
        rc, so, se = cbuild.sh(["gcc", "-g", "-shared", "-fPIC", "h.c"] + extra + ["-o", os.path.join(dst, "h%d.so" % k)], cwd=d)
        n += rc == 0
    rc, so, se = cbuild.sh(["gcc", "-g", "-c", "h.c", "-o", os.path.join(dst, "h.o")], cwd=d)
    n += rc == 0
    return n


def main(tier):
    return fuzzprop.run(PID, tier, __import__("vlib.props.C34", fromlist=["x"]))
