"""C33 — reading any ABIXML input is memory-safe and never aborts."""
import os, glob, shutil, random
from .. import build, cbuild, fuzzprop
from ..gen import model as M

PID = "C33"
HARNESS = "fuzz_abixml"
SOURCES = ["fuzz_abixml.cc"]
MAX_LEN = 65536
DICT = "abixml.dict"
SECONDS = {"quick": 60, "thorough": 1200}
RULE = ("libFuzzer (in-process, ASan + UBSan, 14 forked jobs from a seed corpus + 2 from an empty corpus) on bytes -> "
        "xml_reader::read_corpus_from_input (or read_translation_unit_from_istream / read_corpus_group_from_native_xml when the "
        "root element is abi-instr / abi-corpus-group) -> (when a corpus results) write_corpus and a self compute_diff + report. Seeds: "
        "abidw output for small generated C / C++ libraries and the smaller documents of tests/data/test-read-write, plus a stand-alone abi-instr and an "
        "abi-corpus-group form of the generated ones. A "
        "structure-aware custom mutator replaces attribute values (dictionary values, other values of the same document such "
        "as other type ids, doubled values, numbers), deletes / duplicates / moves element lines, and falls back to byte "
        "mutation; a dictionary of element and attribute names is supplied. ABG_ASSERT is overridden so that an assertion at a "
        "site already listed as a known finding is survived and the campaign goes on behind it. Oracle: no sanitizer report, "
        "no abort, no assertion at an unlisted site, no reproducible hang. evaluations = executions; distinct non-trivial = "
        "corpus units at exit, capped by the number of executions in which a corpus was actually built.")
ASSUMPTIONS = ["libxml2 is not instrumented", "each assertion site of the reader is keyed by file, function and asserted expression"]


def make_seeds(dst, tier, seedv):
    n = 0
    repo = build.REPO
    for f in sorted(glob.glob(os.path.join(repo, "tests/data/test-read-write/*.xml")) + glob.glob(os.path.join(repo, "tests/data/test-read-write/*.abi"))):
        if os.path.getsize(f) < 20000:
            shutil.copy(f, os.path.join(dst, "rw-" + os.path.basename(f)))
            n += 1
    # a few abidw documents for fixed small programs
    progs = {"c1.c": "struct s { int a; char b[3]; struct s *n; union { int x; float y; }; }; enum e { A, B = 5 }; typedef struct s t;\n"
                     "int f(t *p, enum e v, ...) { return 0; } const volatile long g[2][3]; void (*h)(int, t);\n",
             "c2.cc": "struct B { virtual ~B(); int b; }; B::~B() {} class D : public B { public: int d : 3; static int s; void m() const; };\n"
                      "int D::s; void D::m() const {} namespace n { template<typename T> struct X { T v; }; } n::X<int> x; D &f(D &d) { return d; }\n"}
    plain = os.path.join(build.BUILD, "plain", "bin", "abidw")
    for name, src in progs.items():
        d = os.path.join(dst, "..", "seedbuild")
        os.makedirs(d, exist_ok=True)
        open(os.path.join(d, name), "w").write(src)
        cc = "g++" if name.endswith(".cc") else "gcc"
        rc, so, se = cbuild.sh([cc, "-g", "-shared", "-fPIC", name, "-o", name + ".so"], cwd=d)
        if rc == 0:
            for opts in ([], ["--load-all-types"], ["--annotate"]):
                r = cbuild.tool("abidw", opts + [os.path.join(d, name + ".so")])
                if r.rc == 0:
                    open(os.path.join(dst, "gen-%s-%d.abi" % (name, len(opts))), "wb").write(r.out)
                    n += 1
                    if not opts:
                        # the two other root elements the tools accept: a stand-alone translation unit (abi-instr) and a
                        # corpus group
                        i, j = r.out.find(b"<abi-instr"), r.out.find(b"</abi-instr>")
                        if 0 <= i < j:
                            open(os.path.join(dst, "gen-%s-tu.abi" % name), "wb").write(r.out[i:j + 12] + b"\n")
                            n += 1
                        open(os.path.join(dst, "gen-%s-group.abi" % name), "wb").write(
                            b"<abi-corpus-group version='2.1'>\n" + r.out + b"</abi-corpus-group>\n")
                        n += 1
    return n


def main(tier):
    build.ensure("plain")
    return fuzzprop.run(PID, tier, __import__("vlib.props.C33", fromlist=["x"]))
