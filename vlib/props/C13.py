"""C13 — the leaf-change report mode gives the same verdict as the default mode."""
import re
from hypothesis import strategies as st
from ..gen import strategies as S, model as M, multi, suppr
from .. import cbuild, pairs
from ..oracle import report as R
from ..runner import Inconclusive

PID = "C13"
LEVEL = "exploration"
N = {"quick": 500, "thorough": 8000}
RULE = ("Pairs (A, B) differing by 1-5 changes of mixed kinds, with (1/3) and without a generated suppression naming some "
        "of the touched interfaces/types. Oracle (differential): `abidiff --leaf-changes-only --impacted-interfaces` sets "
        "exactly the exit-status bits of the default mode, and every interface listed in a Changed section of the default "
        "report is named in the leaf report (in an impacted-interfaces list or as a changed function/variable). "
        "Non-trivial = at least one change sits in a type that no exported interface uses by value (indirect); distinct by "
        "SHA-1 of the case.")
ASSUMPTIONS = ["an interface counts as named in the leaf report when its name occurs there as a whole word"]


SPURIOUS = "default-mode-lists-interface-whose-changes-are-all-filtered"
MASKED = "uncategorized-change-masked-by-harmless-category-in-default-mode"
FNSUP = "function-or-variable-suppression-not-honoured-by-leaf-mode"


EMPTYLEAF = "leaf-mode-lists-type-whose-member-changes-are-all-suppressed"
MERGED = "leaf-report-merges-same-named-types-of-different-translation-units"


def leaf_explanations_all_empty(text):
    if not re.search(r"Removed/Changed/Added functions summary: 0 Removed, 0 Changed(?: \(\d+ filtered out\))?, 0 Added", text) or \
            not re.search(r"Removed/Changed/Added variables summary: 0 Removed, 0 Changed(?: \(\d+ filtered out\))?, 0 Added", text):
        return False
    blocks = re.split(r"\n(?='[^\n]*' changed:\n)", text)[1:]
    if not blocks:
        return False
    for b in blocks:
        lines = [l.strip() for l in b.split("\n")[1:] if l.strip()]
        k = next((i for i, l in enumerate(lines) if re.match(r"^(one|\d+) impacted interfaces?:$", l)), len(lines))
        body = [l for l in lines[:k] if l not in ("type size hasn't changed", "there are data member changes:")]
        if body:
            return False
    return True


CYCLE = "leaf-report-misses-change-of-type-in-a-cycle"
CVSWAP = "leaf-report-misses-reorder-of-members-whose-types-differ-only-in-cv"


def reorder_of_members_differing_in_cv(case, m, leaf_text):
    """`signed char m1; const signed char m2;` swapped: the default report shows the two offset changes, the leaf report has no
    block for the struct (with or without suppressions).  Narrow on purpose: the two reordered members have the same type up
    to cv-qualifiers but not the identical type (identically typed members are seed C13-1's shape and stay a violation)."""
    idx = M.type_index(m)
    for info in case["infos"]:
        if info.get("kind") != "reorder_members" or info.get("type") not in idx or len(info.get("members", [])) != 2:
            continue
        t = idx[info["type"]]
        ms = {mm["name"]: mm for mm in M._members_flat(t["members"]) if "name" in mm}
        a, b = (ms.get(n) for n in info["members"])
        if not a or not b or a.get("bits") is not None or b.get("bits") is not None:
            continue
        if a["type"] != b["type"] and M.strip_cv(a["type"]) == M.strip_cv(b["type"]):
            cname = t.get("cname", t["name"])
            if not re.search(r"'(?:struct|class|union) %s(?: at [^']*)?' changed:" % re.escape(cname), leaf_text):
                return True
    return False


def changed_type_in_cycle_missing(case, m, iface, leaf_text):
    """The leaf report has no block at all for a changed struct / class that sits in a cycle of types (struct st1 holds class
    cl0 by value, cl0 points back to st1), so the interfaces that reach it are not named.  Recognised from the model: the
    missing interface reaches a mutated aggregate that reaches itself, and the leaf report does not show that type as changed."""
    f = next((i for k, i in M.interfaces(m) if i["name"] == iface), None)
    idx = M.type_index(m)
    if f is None:
        # a member function: its class
        cls = [t["name"] for t in m["types"] if any(me["name"] == iface or iface.endswith("::" + me["name"]) for me in t.get("methods", []))]
        reach = M.reach_from_names(m, cls)
    else:
        reach = M.iface_reach(m, f)
    for info in case["infos"]:
        tn = info.get("type")
        if not tn or tn not in reach or tn not in idx or idx[tn]["kind"] not in ("struct", "class", "union"):
            continue
        if tn not in M.reach_from_names(m, M.direct_deps(idx[tn])):
            continue
        cname = idx[tn].get("cname", tn)
        if not re.search(r"'(?:struct|class|union) %s(?: at [^']*)?' changed:" % re.escape(cname), leaf_text):
            return True
    return False


def same_named_private_types_merged(m, m2, iface, leaf_text):
    """The leaf report keys changed types by name: of two *different* types of the same name (one per translation unit) that
    both changed it shows one, so the interfaces of the other are missing.  Recognised from the model: the missing interface
    reaches a TU-private type whose C-level name another TU-private type shares, both differ between the two versions, and the
    leaf report does show a changed type of that name."""
    idx1, idx2 = M.type_index(m), M.type_index(m2)
    f = next((i for k, i in M.interfaces(m) if i["name"] == iface), None)
    if f is None:
        return False
    for n in M.iface_reach(m, f):
        t = idx1.get(n)
        if not t or not t.get("cname") or idx2.get(n) == t:
            continue
        for o in m["types"]:
            if o is not t and o.get("cname") == t["cname"] and o.get("where") != t.get("where") and idx2.get(o["name"]) != o \
                    and re.search(r"'(?:enum|struct|union|class) %s(?: at [^']*)?' changed:" % re.escape(t["cname"]), leaf_text):
                return True
    return False


@st.composite
def strategy_(draw, tier):
    c = draw(multi.multi_pair(tier, lo=1, hi=5))
    c["suppr"] = suppr.targeting(draw, c["model"], c["mutant"], c["infos"]) if draw(st.integers(0, 2)) == 0 else None
    return c


def strategy(tier):
    return strategy_(tier)


def run_case(case, cx):
    m, m2, cfg = case["model"], case["mutant"], case["cfg"]
    d, b1, b2 = pairs.build_pair(cx, m, m2, cfg, nodebug_tus=tuple(case["nodebug"]), sonames=case.get("sonames"))
    opts = []
    if case["suppr"]:
        sp = d + "/s.suppr"
        open(sp, "w").write(case["suppr"])
        opts = ["--suppressions", sp]
    dflt = pairs.abidiff(cx, b1, b2, opts)
    leaf = pairs.abidiff(cx, b1, b2, opts + ["--leaf-changes-only", "--impacted-interfaces"])
    for x in (dflt, leaf):
        if cbuild.crashed(x):
            cx.violation("crash:" + cbuild.crash_key(x), x.brief())
            return
    if dflt.rc & R.STATUS_ERROR:
        raise Inconclusive("error status")
    kinds = [i["kind"] for i in case["infos"]]
    cx.cls("suppr=%s" % bool(case["suppr"]), "lang=" + m["lang"], "rc=%d" % dflt.rc)
    for k in set(kinds):
        cx.cls("chg=" + k)
    if any(i.get("depth") == "indirect" for i in case["infos"]):
        cx.nt(case)
    cx.sample({"changes": kinds, "suppr": case["suppr"], "default_rc": dflt.rc, "leaf_rc": leaf.rc,
               "leaf_head": leaf.text()[:500]})
    det = {"changes": kinds, "suppr": case["suppr"], "default": dflt.brief(), "leaf": leaf.brief()}
    if dflt.rc != leaf.rc:
        # Recorded defect: a [suppress_function]/[suppress_variable] section suppresses the interface's own diff node,
        # which empties the default report, but the leaf reporter still lists the changed *type* reached only through
        # that interface.  Attributed to it only if (a) the leaf mode is the one that reports more, and (b) dropping the
        # function/variable sections (type sections stay) makes both modes agree again.
        if case["suppr"] and re.search(r"\[suppress_(function|variable)\]", case["suppr"]) \
                and (leaf.rc & ~dflt.rc) and not (dflt.rc & ~leaf.rc):
            kept = "\n".join(sec for sec in re.split(r"\n(?=\[)", case["suppr"]) if sec.startswith("[suppress_type]"))
            open(d + "/s2.suppr", "w").write(kept)
            o2 = ["--suppressions", d + "/s2.suppr"]
            d2 = pairs.abidiff(cx, b1, b2, o2)
            l2 = pairs.abidiff(cx, b1, b2, o2 + ["--leaf-changes-only", "--impacted-interfaces"])
            if d2.rc == l2.rc and not cbuild.crashed(d2) and not cbuild.crashed(l2):
                cx.violation(FNSUP, det)
                return
            # the divergence persists without the function/variable sections: is it the masked defect below?
            if (l2.rc & ~d2.rc) and not (d2.rc & ~l2.rc) and pairs.only_harmless_categories_in_tree(cx, b1, b2, o2):
                cx.violation(MASKED, det)
                return
        # Second recorded defect (root cause shared with C05's masked finding): an uncategorized local change below a node
        # that inherits a harmless category is filtered by the default reporter but shown by the leaf reporter.
        if (leaf.rc & ~dflt.rc) and not (dflt.rc & ~leaf.rc) and pairs.only_harmless_categories_in_tree(cx, b1, b2, opts):
            cx.violation(MASKED, det)
            return
        # Third recorded defect, the mirror image: the default reporter lists an interface "with some indirect sub-type
        # changes" although every change beneath it is filtered (harmless or suppressed), and prints an empty explanation;
        # the leaf reporter shows nothing.  Recognised from the diff tree: no unsuppressed harmful category under any of
        # the interfaces the default report lists.
        if (dflt.rc & ~leaf.rc) and not (leaf.rc & ~dflt.rc):
            try:
                rep0 = R.parse(dflt.text())
                listed = []
                names0 = sorted(set(i["name"] for mm in (m, m2) for k, i in M.interfaces(mm)), key=len, reverse=True)
                for pretty, linkage in rep0.names("fn_changed") + rep0.names("var_changed"):
                    listed.append(next((n for n in names0 if re.search(r"(?<![A-Za-z0-9_])" + re.escape(n) + r"(?![A-Za-z0-9_])", pretty)), None))
                only_changed = not any(rep0.names(k) for k in rep0.sections if k not in ("fn_changed", "var_changed"))
                if listed and all(listed) and only_changed and not rep0.soname_changed and \
                        all(pairs.subtree_has_nothing_reportable(cx, b1, b2, opts, n) for n in listed):
                    cx.violation(SPURIOUS, det)
                    return
            except R.ParseError:
                pass
        # Fourth recorded defect: under a [suppress_type] section the leaf reporter still lists a type whose member changes
        # are all suppressed -- "'union un6' changed: ... there are data member changes:" followed by no member at all --
        # and exits 4, while the default mode filters the whole thing.  Recognised from the leaf report itself: nothing
        # removed / added / changed among functions and variables, and every changed-type block is such an empty explanation.
        if (leaf.rc & ~dflt.rc) and not (dflt.rc & ~leaf.rc) and case["suppr"] and "[suppress_type]" in case["suppr"] \
                and leaf_explanations_all_empty(leaf.text()):
            cx.violation(EMPTYLEAF, det)
            return
        cx.violation("exit-status-differs:default=%d,leaf=%d" % (dflt.rc, leaf.rc), det)
        return
    rep = pairs.parse_or_oracle_error(cx, dflt)
    names = sorted(set(i["name"] for mm in (m, m2) for k, i in M.interfaces(mm)), key=len, reverse=True)
    ltxt = leaf.text()
    for pretty, linkage in rep.names("fn_changed") + rep.names("var_changed"):
        hit = next((n for n in names if re.search(r"(?<![A-Za-z0-9_])" + re.escape(n) + r"(?![A-Za-z0-9_])", pretty)), None)
        if hit is None:
            continue
        if not re.search(r"(?<![A-Za-z0-9_])" + re.escape(hit) + r"(?![A-Za-z0-9_])", ltxt):
            if pairs.subtree_has_nothing_reportable(cx, b1, b2, opts, hit):
                cx.violation(SPURIOUS, dict(det, interface=hit))
                return
            if same_named_private_types_merged(m, m2, hit, ltxt):
                cx.violation(MERGED, dict(det, interface=hit))
                return
            if reorder_of_members_differing_in_cv(case, m, ltxt):
                cx.violation(CVSWAP, dict(det, interface=hit))
                return
            if changed_type_in_cycle_missing(case, m, hit, ltxt):
                cx.violation(CYCLE, dict(det, interface=hit))
                return
            cx.violation("changed-interface-missing-from-leaf-report", dict(det, interface=hit))
            return
