"""C21 — equality, hashing and diffing agree on the IR."""
import json, os, re
from hypothesis import strategies as st
from ..gen import strategies as S, model as M, mutate as MU, multi
from .. import cbuild, pairs, build
from ..runner import Inconclusive

PID = "C21"
LEVEL = "exploration"
N = {"quick": 400, "thorough": 6000}
RULE = ("Pairs (P, P') of generated C/C++ libraries, P' = P with 0-4 changes (breaking, harmless, neutral rewrites or none, "
        "about a third each), both loaded into ONE environment through the public API (dwarf_reader::read_corpus_from_elf) by "
        "the executor cxx/c21_eqhash.cc, which enumerates (a) every pair of functions / variables / member functions with the "
        "same symbol id across the two corpora, (b) all pairs of named types of the first corpus (up to 60 types -> 1830 "
        "pairs), (c) same-named types across the corpora. Oracle per pair: a == b  <=>  b == a;  a == b  =>  "
        "hash_type_or_decl(a) == hash_type_or_decl(b);  compute_diff(a, b)->has_changes()  <=>  !(a == b). Non-trivial = the "
        "case has an unequal pair of same-identity artifacts; evaluations = pairs checked; distinct by SHA-1 of the case.")
ASSUMPTIONS = ["the three relations are read through the public API only (operator==, hash_type_or_decl, compute_diff)"]
SUBRANGE = "crash:executor:compute_diff-aborts-on-array-subrange-types"
HARNESS = ("c21_eqhash", "plain", ["c21_eqhash.cc"])


def prepare(tier):
    build.ensure_harness(*HARNESS, extra_ld=[])


@st.composite
def strategy_(draw, tier):
    c = draw(multi.multi_pair(tier, lo=0, hi=4, nodebug=False, symfeatures=False, symonly_pct=0))
    if draw(st.integers(0, 2)) == 0:
        c["mutant"], info = MU.neutral(draw, c["model"])
        c["infos"] = [{"kind": "neutral:" + k} for k in info["kinds"]]
    return c


def strategy(tier):
    return strategy_(tier)


def run_case(case, cx):
    m, m2, cfg = case["model"], case["mutant"], case["cfg"]
    d, b1, b2 = pairs.build_pair(cx, m, m2, cfg)
    exe = os.path.join(build.BUILD, "plain", "bin", "c21_eqhash")
    out = d + "/res.json"
    rc, so, se = cbuild.sh([exe, b1, b2, "--out", out], env=cbuild.tool_env(), timeout=300)
    kinds = [i["kind"] for i in case["infos"]]
    cx.cls("lang=" + m["lang"], "cc=" + cfg["cc"], "changes=%d" % len(kinds))
    if rc == -999:
        raise Inconclusive("timeout")
    if rc not in (0, 1):
        if rc == 3:
            raise Inconclusive("corpora not loadable")
        err = se.decode(errors="replace")
        mm = re.search(r"abg-[\w-]+\.cc:\d+: .*?([\w:~]+)\(.*Assertion", err)
        site = mm.group(1).split("::")[-1] if mm else "rc=%d" % rc
        cx.violation("crash:executor:" + site, {"stderr": err[-800:], "changes": kinds, "files": M.render_files(m)})
        return
    res = json.load(open(out))
    cx.evaluations += res["pairs"]
    if res.get("excluded_subrange_types"):
        cx.excluded["array-subrange-types(no diff class)"] += res["excluded_subrange_types"]
        rc2, so2, se2 = cbuild.sh([exe, b1, b2, "--try-subrange"], env=cbuild.tool_env(), timeout=120)
        if rc2 not in (0, 1):
            cx.violation(SUBRANGE, {"stderr": se2.decode(errors="replace")[-400:]})
    if res["unequal_same_id"]:
        cx.nt(case)
    cx.sample({"changes": kinds, "pairs": res["pairs"], "equal_pairs": res["equal_pairs"], "unequal_same_identity": res["unequal_same_id"],
               "examples": res["samples"][:2]})
    for f in res["fails"]:
        parts = f.split("|")
        cx.violation(parts[0] + ":" + parts[1].split(":")[0], {"what": parts[1], "a": parts[2], "b": parts[3], "changes": kinds,
                                                               "types.h(v1)": M.render_header(m), "types.h(v2)": M.render_header(m2)})
        return
