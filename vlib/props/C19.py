"""C19 — symbol-only comparisons report exactly the symbol set difference."""
from hypothesis import strategies as st
from ..gen import strategies as S, model as M, multi
from .. import cbuild, pairs
from ..oracle import report as R, elf
from ..runner import Inconclusive

PID = "C19"
LEVEL = "exploration"
N = {"quick": 500, "thorough": 8000}
RULE = ("Pairs of generated C libraries built without any debug info (aliases, weak symbols, hidden/protected visibility, "
        "version scripts with default versions), differing by 2-8 additions, removals, alias / binding changes and version "
        "changes (including unversioned -> default-version re-exports). Oracle (readelf on .dynsym, independent of "
        "libabigail): the names listed in abidiff's Removed / Added function-symbol and variable-symbol sections equal the "
        "set difference of the public defined FUNC/OBJECT symbols by (name, version), where an unversioned symbol of the "
        "first binary and name@@VER of the second are the same symbol (the documented re-export rule; the opposite "
        "direction is not pinned down by the statement and is counted as unasserted); any removal => INCOMPATIBLE bit; "
        "equal sets => exit 0. Non-trivial = at least one removal and one addition; distinct by SHA-1 of the case.")
ASSUMPTIONS = ["readelf -W -s is the ground truth for the dynamic symbol table"]
ALIAS = "alias-symbol-addition-or-removal-missed"


@st.composite
def strategy_(draw, tier):
    c = draw(multi.multi_pair(tier, lo=2, hi=6, symonly_pct=100))
    return c


def strategy(tier):
    return strategy_(tier)


def symset(path):
    fs, vs = set(), set()
    for s in elf.public_defined(elf.relevant_table(path)):
        key = (s.name, s.version)
        (fs if s.type in ("FUNC", "IFUNC", "GNU_IFUNC") else vs).add(key)
    return fs, vs


def fmt(k):
    return k[0] + ("@@" + k[1] if k[1] else "")


def run_case(case, cx):
    m, m2, cfg = case["model"], case["mutant"], case["cfg"]
    d, b1, b2 = pairs.build_pair(cx, m, m2, cfg, nodebug_tus=tuple(case["nodebug"]), sonames=None)
    r = pairs.abidiff(cx, b1, b2)
    if cbuild.crashed(r):
        cx.violation("crash:" + cbuild.crash_key(r), r.brief())
        return
    if r.rc & R.STATUS_ERROR:
        raise Inconclusive("error status")
    rep = pairs.parse_or_oracle_error(cx, r)
    kinds = [i["kind"] for i in case["infos"]]
    for k in set(kinds):
        cx.cls("chg=" + k)
    f1, v1 = symset(b1)
    f2, v2 = symset(b2)
    unasserted = False
    exp = {}
    for tag, s1, s2 in (("f", f1, f2), ("v", v1, v2)):
        rem, add = s1 - s2, s2 - s1
        # documented rule: unversioned in the first binary == name@@VER in the second
        for (n, v) in list(rem):
            if v is None:
                tw = [(n2, vv) for (n2, vv) in add if n2 == n and vv]
                if tw:
                    rem.discard((n, v))
                    add.discard(tw[0])
        # the opposite direction (name@@VER -> unversioned) is not pinned down: such names carry no assertion
        for (n, v) in list(rem):
            if v is not None and (n, None) in add:
                unasserted = True
                rem.discard((n, v))
                add.discard((n, None))
                exp.setdefault("skip", set()).add(n)
        exp[tag + "rem"], exp[tag + "add"] = set(fmt(k) for k in rem), set(fmt(k) for k in add)
    skip = exp.get("skip", set())
    got = {}
    for tag, key in (("frem", "fsym_removed"), ("fadd", "fsym_added"), ("vrem", "vsym_removed"), ("vadd", "vsym_added")):
        got[tag] = set(n[0] for n in rep.names(key) if n[0].split("@")[0] not in skip)
    cx.cls("unasserted=%s" % unasserted, "rc=%d" % r.rc)
    nrem = len(exp["frem"]) + len(exp["vrem"])
    nadd = len(exp["fadd"]) + len(exp["vadd"])
    if nrem and nadd:
        cx.nt(case)
    cx.sample({"changes": kinds, "expected": {k: sorted(v) for k, v in exp.items()}, "rc": r.rc})
    det = {"changes": kinds, "expected": {k: sorted(v) for k, v in exp.items()}, "reported": {k: sorted(v) for k, v in got.items()},
           "run": r.brief()}
    alias_names = set(a["name"] for mm in (m, m2) for k, i in M.interfaces(mm) for a in i.get("aliases", [])) | \
        set(i["name"] for mm in (m, m2) for k, i in M.interfaces(mm) if i.get("aliases"))
    alias_hit = False
    for tag in ("frem", "fadd", "vrem", "vadd"):
        if got[tag] != exp[tag]:
            diff = got[tag] ^ exp[tag]
            # recorded defect (see C11): alias symbols can be paired with the symbol they alias by the sequence diff and
            # drop out; recognised only for names that are aliases / alias targets in the model and only when they are
            # missing from the report (never when something unexpected is reported)
            if all(x.split("@")[0] in alias_names for x in diff) and not (got[tag] - exp[tag]):
                alias_hit = True
                continue
            cx.violation("symbol-set-difference-mismatch:" + tag, dict(det, section=tag, differing=sorted(diff)))
            return
    if alias_hit:
        cx.violation(ALIAS, det)
        return
    if unasserted:
        return
    if nrem and not r.rc & R.STATUS_INCOMPAT:
        cx.violation("removal-without-incompatible-bit", det)
    elif not nrem and not nadd and f1 == f2 and v1 == v2 and r.rc != 0:
        cx.violation("identical-symbol-sets-nonzero-exit", det)
