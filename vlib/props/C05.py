"""C05 — ABI-breaking source changes are always reported."""
import re
from hypothesis import strategies as st
from ..gen import strategies as S, model as M, mutate as MU
from .. import cbuild, pairs
from ..oracle import report as R
from ..runner import Inconclusive

PID = "C05"
LEVEL = "exploration"
N = {"quick": 800, "thorough": 16000}
RULE = ("Pairs (P, M(P)): P a Hypothesis-generated C/C++ library model, M one mutation from the breaking catalog "
        "(insert/remove/reorder member, member type, array bound, enumerator value, enum size, add/remove parameter, "
        "parameter/return/variable type, remove function/variable, C++: add/remove virtual, remove base) applied to a type "
        "reachable from an exported interface or to an exported interface; both built with the same compiler and flags. "
        "Oracle from the model: ABI_CHANGE bit set; removals also INCOMPATIBLE and listed in the Removed section; otherwise "
        "at least one interface of the model's affected set is named in a Changed (or, for C++ signature changes, "
        "Removed) section. Non-trivial = mutation not on a direct by-value parameter/return/variable type "
        "(depth 'indirect') or a signature/removal mutation; distinct by SHA-1 of the case.")
ASSUMPTIONS = ["clang builds use -fstandalone-debug so that every reachable type has a full DWARF definition",
               "the model's reachability relation (through pointers, typedefs, arrays, members, function types) decides "
               "which interfaces are affected"]


@st.composite
def strategy_(draw, tier):
    big = tier == "thorough"
    m = draw(S.library(lang="any", max_types=10 if big else 7, max_funcs=6, symfeatures=False, tu_private=30))
    cfg = draw(S.build_config())
    only = None
    if m["lang"] == "cxx" and draw(st.booleans()):
        cxxk = [k for k in MU.applicable_breaking(m) if k in ("add_base", "remove_base", "add_virtual", "remove_virtual")]
        only = cxxk or None
    m2, info = MU.breaking(draw, m, only=only)
    return {"model": m, "cfg": cfg, "mutant": m2, "info": info}


def strategy(tier):
    return strategy_(tier)


MASKED = "member-type-change-masked-by-harmless-union-change"
MASKED2 = "uncategorized-change-masked-by-harmless-category"
_HARMLESS_ONLY = {"HARMLESS_UNION_CHANGE_CATEGORY", "REDUNDANT_CATEGORY"}
_NODE = re.compile(r"^( *)(\w+)\[(.*)\]$")


def diff_tree(text):
    """Parse `abidiff --dump-diff-tree` (stderr) into [(indent, kind, subjects, {categories})]."""
    nodes = []
    lines = text.splitlines()
    for k, l in enumerate(lines):
        m = _NODE.match(l)
        if not m or k + 2 >= len(lines) or lines[k + 1].strip() != "{":
            continue
        c = lines[k + 2].strip()
        if not c.startswith("category:"):
            continue
        nodes.append((len(m.group(1)), m.group(2), m.group(3), set(x.strip() for x in c[9:].split("|"))))
    return nodes


def masked_by_harmless_union(cx, b1, b2, info):
    """Recognise exactly the recorded defect (known_findings.json, C05): the data member's type change keeps every size
    and offset, so categorize_harmful_diff_node gives it no category; the enclosing class also has a by-value union
    member whose own diff is size-preserving (HARMLESS_UNION_CHANGE_CATEGORY, e.g. the union points back to the class);
    that category is propagated to the class_diff, whose category set then holds nothing that is allowed by default, and
    diff::is_filtered_out drops the class_diff together with the uncategorized sibling.  All of this is read off the
    tool's own diff tree and its --harmless report; anything else that hides the change stays a violation."""
    if info["kind"] != "member_type":
        return False
    t = pairs.abidiff(cx, b1, b2, ["--dump-diff-tree"])
    if cbuild.crashed(t) or t.rc != 0:
        return False
    nodes = diff_tree(t.etext())
    q = re.escape("%s::%s" % (info["type"], info["member"]))
    rx = re.compile(r"^.*(?<![\w:])%s, .*(?<![\w:])%s$" % (q, q))
    hit = False
    for k, (ind, kind, subj, cats) in enumerate(nodes):
        if kind != "var_diff" or not rx.match(subj) or cats != {"NO_CHANGE_CATEGORY"}:
            continue
        pk = next((j for j in range(k - 1, -1, -1) if nodes[j][0] == ind - 2), None)
        if pk is None:
            return False
        parent = nodes[pk]
        # the parent's subtree: everything after it that is indented deeper
        end = next((j for j in range(pk + 1, len(nodes)) if nodes[j][0] <= parent[0]), len(nodes))
        sub = nodes[pk + 1:end]
        from_union = any(n[1] == "union_diff" and "HARMLESS_UNION_CHANGE_CATEGORY" in n[3] for n in sub)
        # --dump-diff-tree prints every instance of a diff node; only the first-visited/canonical instances carry the
        # categories, the other instances of class_diff[T, T] show NO_CHANGE_CATEGORY
        if parent[1] != "class_diff" or not parent[3] <= _HARMLESS_ONLY | {"NO_CHANGE_CATEGORY"}:
            return False
        if "HARMLESS_UNION_CHANGE_CATEGORY" in parent[3] and from_union:
            hit = True
    if not hit:
        return False
    h = pairs.abidiff(cx, b1, b2, ["--harmless"])
    if cbuild.crashed(h) or not h.rc & R.STATUS_CHANGE or h.rc & R.STATUS_ERROR:
        return False
    txt = h.text()
    if "type size changed" in txt or "offset changed" in txt:
        return False
    return any(pairs.mentions([txt], a) for a in info["affected"])


BELOW_UNION = "harmful-category-lost-at-non-canonical-diff-node"


def harmful_hidden_below_union(cx, b1, b2):
    """Third shape of the masking defect, in cyclic types: a diff node that is not its own canonical node (the same pair of
    types was already met further down, e.g. union un1 -> st2* -> struct st2 -> un1) carries a harmful category
    (SIZE_OR_OFFSET_CHANGE_CATEGORY ...), but its parent does not: propagation reads the category of the *canonical* node,
    which was computed inside the cycle and holds harmless categories only.  Everything above -- up to the function / variable
    diff node -- is then harmless-only and the default reporter filters the interface.  Recognised from the tool's own diff
    tree: such a (parent, non-canonical child) pair exists, no interface-level node carries a harmful category, and --harmless
    does report the change."""
    t = pairs.abidiff(cx, b1, b2, ["--dump-diff-tree"])
    if cbuild.crashed(t):
        return False
    nodes = pairs.diff_tree_full(t.etext())
    if not nodes:
        return False
    top = min(n[0] for n in nodes)
    hit = False
    for k, (ind, kind, subj, cats, addr, canon) in enumerate(nodes):
        if ind == top and cats & pairs.HARMFUL_CATS:
            return False            # an interface's own node is harmful: its silence is not explained by this defect
        if cats & pairs.HARMFUL_CATS and addr and canon and addr != canon and ind > top:
            pk = next((j for j in range(k - 1, -1, -1) if nodes[j][0] < ind), None)
            if pk is not None and not nodes[pk][3] & pairs.HARMFUL_CATS and nodes[pk][3] & pairs.HARMLESS_CATS:
                hit = True
    if not hit:
        return False
    h = pairs.abidiff(cx, b1, b2, ["--harmless"])
    return not cbuild.crashed(h) and bool(h.rc & R.STATUS_CHANGE) and not h.rc & R.STATUS_ERROR


def run_case(case, cx):
    m, m2, info, cfg = case["model"], case["mutant"], case["info"], case["cfg"]
    if m2 is None:
        cx.cls("no-applicable-mutation")
        return
    d, b1, b2 = pairs.build_pair(cx, m, m2, cfg)
    r = pairs.abidiff(cx, b1, b2)
    cx.cls("mut=" + info["kind"], "depth=" + info.get("depth", "?"), "lang=" + m["lang"], "cc=" + cfg["cc"],
           "dwarf=%d" % cfg["dwarf"])
    if info.get("depth") != "direct":
        cx.nt(case)
    cx.sample({"mutation": info, "cfg": cfg, "rc": r.rc, "report_head": r.text()[:600]})
    if cbuild.crashed(r):
        cx.violation("crash:" + cbuild.crash_key(r), r.brief())
        return
    if r.rc & R.STATUS_ERROR:
        cx.violation("error-status", r.brief())
        return
    det = {"mutation": info, "run": r.brief(), "types.h(v1)": M.render_header(m), "types.h(v2)": M.render_header(m2)}
    if not r.rc & R.STATUS_CHANGE:
        if masked_by_harmless_union(cx, b1, b2, info):
            cx.violation(MASKED, det)
            return
        # the same defect with another harmless category doing the masking (the union that carries
        # HARMLESS_UNION_CHANGE_CATEGORY may also *contain* the struct instead of being a member of it; a top-level cv
        # change of a parameter, an access change ... mask in the same way): the tool's own diff tree holds harmless
        # categories only -- not a single harmful one -- and --harmless does report the change
        if info["kind"] in ("member_type", "reorder_members", "enumerator_value") and \
                pairs.only_harmless_categories_in_tree(cx, b1, b2):
            cx.violation(MASKED2, det)
            return
        if harmful_hidden_below_union(cx, b1, b2):
            cx.violation(BELOW_UNION, det)
            return
        cx.violation("not-reported:" + info["kind"], det)
        return
    rep = pairs.parse_or_oracle_error(cx, r)
    if info["removed"]:
        if not r.rc & R.STATUS_INCOMPAT:
            cx.violation("removal-not-incompatible", det)
            return
        ents = pairs.entries(rep, "fn_removed", "var_removed", "fsym_removed", "vsym_removed")
        if not pairs.mentions(ents, info["removed"][0]):
            cx.violation("removed-not-listed", det)
        return
    if not info["affected"]:
        raise Inconclusive("empty affected set")
    ents = pairs.entries(rep, "fn_changed", "var_changed")
    if m["lang"] == "cxx" and info.get("depth") == "signature":
        ents = ents + pairs.entries(rep, "fn_removed", "var_removed")
    if not any(pairs.mentions(ents, a) for a in info["affected"]):
        cx.violation("affected-not-named:" + info["kind"], det)
