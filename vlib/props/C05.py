"""C05 — ABI-breaking source changes are always reported."""
from hypothesis import strategies as st
from ..gen import strategies as S, model as M, mutate as MU
from .. import cbuild, pairs
from ..oracle import report as R
from ..runner import Inconclusive

PID = "C05"
LEVEL = "exploration"
N = {"quick": 800, "thorough": 16000}
RULE = ("Pairs (P, M(P)): P a Hypothesis-generated C/C++ library model, M one mutation from the breaking catalog "
        "(insert/remove/reorder member, member type, array bound, enumerator value, enum size, add/remove parameter, "
        "parameter/return/variable type, remove function/variable, C++: add/remove virtual, remove base) applied to a type "
        "reachable from an exported interface or to an exported interface; both built with the same compiler and flags. "
        "Oracle from the model: ABI_CHANGE bit set; removals also INCOMPATIBLE and listed in the Removed section; otherwise "
        "at least one interface of the model's affected set is named in a Changed (or, for C++ signature changes, "
        "Removed) section. Non-trivial = mutation not on a direct by-value parameter/return/variable type "
        "(depth 'indirect') or a signature/removal mutation; distinct by SHA-1 of the case.")
ASSUMPTIONS = ["clang builds use -fstandalone-debug so that every reachable type has a full DWARF definition",
               "the model's reachability relation (through pointers, typedefs, arrays, members, function types) decides "
               "which interfaces are affected"]


@st.composite
def strategy_(draw, tier):
    big = tier == "thorough"
    m = draw(S.library(lang="any", max_types=10 if big else 7, max_funcs=6, symfeatures=False, tu_private=30))
    cfg = draw(S.build_config())
    m2, info = MU.breaking(draw, m)
    return {"model": m, "cfg": cfg, "mutant": m2, "info": info}


def strategy(tier):
    return strategy_(tier)


def run_case(case, cx):
    m, m2, info, cfg = case["model"], case["mutant"], case["info"], case["cfg"]
    if m2 is None:
        cx.cls("no-applicable-mutation")
        return
    d, b1, b2 = pairs.build_pair(cx, m, m2, cfg)
    r = pairs.abidiff(cx, b1, b2)
    cx.cls("mut=" + info["kind"], "depth=" + info.get("depth", "?"), "lang=" + m["lang"], "cc=" + cfg["cc"],
           "dwarf=%d" % cfg["dwarf"])
    if info.get("depth") != "direct":
        cx.nt(case)
    cx.sample({"mutation": info, "cfg": cfg, "rc": r.rc, "report_head": r.text()[:600]})
    if cbuild.crashed(r):
        cx.violation("crash:" + cbuild.crash_key(r), r.brief())
        return
    if r.rc & R.STATUS_ERROR:
        cx.violation("error-status", r.brief())
        return
    det = {"mutation": info, "run": r.brief(), "types.h(v1)": M.render_header(m), "types.h(v2)": M.render_header(m2)}
    if not r.rc & R.STATUS_CHANGE:
        cx.violation("not-reported:" + info["kind"], det)
        return
    rep = pairs.parse_or_oracle_error(cx, r)
    if info["removed"]:
        if not r.rc & R.STATUS_INCOMPAT:
            cx.violation("removal-not-incompatible", det)
            return
        ents = pairs.entries(rep, "fn_removed", "var_removed", "fsym_removed", "vsym_removed")
        if not pairs.mentions(ents, info["removed"][0]):
            cx.violation("removed-not-listed", det)
        return
    if not info["affected"]:
        raise Inconclusive("empty affected set")
    ents = pairs.entries(rep, "fn_changed", "var_changed")
    if m["lang"] == "cxx" and info.get("depth") == "signature":
        ents = ents + pairs.entries(rep, "fn_removed", "var_removed")
    if not any(pairs.mentions(ents, a) for a in info["affected"]):
        cx.violation("affected-not-named:" + info["kind"], det)
