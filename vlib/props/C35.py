"""C35 — analysing compiler output is free of memory errors and undefined behaviour."""
import os
from hypothesis import strategies as st
from ..gen import strategies as S, model as M, multi
from .. import cbuild, pairs
from ..runner import Inconclusive

PID = "C35"
LEVEL = "exploration"
VARIANTS = ["asan"]
N = {"quick": 70, "thorough": 1500}
RULE = ("The program-pair generator of the other checks (C and C++ libraries with classes, bases, virtual functions, "
        "templates, bit-fields, anonymous members, aliases, versions, translation units without debug info; gcc/clang, DWARF "
        "4/5, shared/relocatable) feeding the tools rebuilt with clang -fsanitize=address,undefined "
        "(-fno-sanitize-recover=undefined, leak detection off): abidw (default, --load-all-types --annotate), abilint on the "
        "ABIXML, abidiff ELF/ELF, ELF/ABIXML, ABIXML/ABIXML in default, --leaf-changes-only, --harmless --redundant modes, "
        "abidw --abidiff, abipkgdiff on two directories; plus, per case, a sweep of three single mutations (member inserted / "
        "removed / reordered / retyped, array bound changed, array dimension added or dropped) of a struct that has a member "
        "of every shape, each compared with the unmutated build in both orders. Oracle: no AddressSanitizer / UndefinedBehaviorSanitizer report and "
        "no fatal signal in any run. Non-trivial = C++ model or a model with at least 4 named types; distinct by SHA-1 of "
        "(case, command).")
ASSUMPTIONS = ["elfutils, libxml2 and libstdc++ are not instrumented: errors inside them are only seen when they fault"]


SWEEP_KINDS = ["insert_member", "remove_member", "reorder_members", "member_type", "array_bound", "array_bound", "array_bound"]


def kitchen_sink(m):
    """The model plus one struct that has a member of every shape (two-dimensional and plain arrays, bit-fields, an anonymous
    union, a function pointer, pointers) and a function using it: the subject of the per-case mutation sweep."""
    import copy
    m = copy.deepcopy(m)
    B = lambda n: ["b", n]
    m["types"].append({"kind": "struct", "name": "ks0", "members": [
        {"name": "a", "type": B("int"), "bits": None},
        {"name": "tag", "type": ["a", ["a", B("char"), 2], 8], "bits": None},
        {"name": "b", "type": B("unsigned int"), "bits": 3},
        {"name": "c", "type": B("unsigned int"), "bits": 5},
        {"anon": "union", "members": [{"name": "ux", "type": B("int"), "bits": None}, {"name": "uy", "type": B("float"), "bits": None}]},
        {"name": "fp", "type": ["p", ["fn", B("int"), [B("long")], False]], "bits": None},
        {"name": "arr", "type": ["a", B("long"), 4], "bits": None},
        {"name": "grid", "type": ["a", ["a", ["p", B("char")], 3], 2], "bits": None},
        {"name": "next", "type": ["p", ["n", "ks0"]], "bits": None}]})
    f = {"name": "use_ks0", "ret": ["b", "int"], "params": [{"name": "p", "type": ["p", ["n", "ks0"]]}], "variadic": False, "tu": 0,
         "body": 1}
    if m["lang"] == "cxx":
        f["extern_c"] = False
    m["funcs"].append(f)
    return m


@st.composite
def strategy_(draw, tier):
    from ..gen import mutate as MU
    c = draw(multi.multi_pair(tier, lo=0, hi=4))
    c["cfg"]["kind"] = S._pick(draw, ["shared", "shared", "shared", "rel"])
    # mutation sweep: three single mutations of the kitchen-sink struct, each compared with the unmutated build
    base = kitchen_sink(c["model"])
    c["sweep_base"] = base
    c["sweep"] = []
    for _ in range(3):
        m2, info = MU.breaking(draw, base, only=[S._pick(draw, SWEEP_KINDS)], type_names=["ks0"])
        if m2 is not None:
            c["sweep"].append({"mutant": m2, "info": info})
    return c


def strategy(tier):
    return strategy_(tier)


def run_case(case, cx):
    m, m2, cfg = case["model"], case["mutant"], case["cfg"]
    d, b1, b2 = pairs.build_pair(cx, m, m2, cfg, full_debug=False, nodebug_tus=tuple(case["nodebug"]),
                                 sonames=case.get("sonames") if cfg["kind"] == "shared" else None)
    x1, x2 = d + "/v1.abi", d + "/v2.abi"
    p1, p2 = d + "/p1", d + "/p2"
    os.makedirs(p1), os.makedirs(p2)
    os.link(b1, p1 + "/libx.so"), os.link(b2, p2 + "/libx.so"), os.link(b1, p1 + "/liby.so")
    nd = ["--no-default-suppression"]
    cmds = [("abidw", ["--out-file", x1, b1]), ("abidw", ["--load-all-types", "--annotate", "--out-file", x2, b2]),
            ("abilint", [x1]), ("abilint", ["--noout", x2]),
            ("abidiff", nd + [b1, b2]), ("abidiff", nd + ["--leaf-changes-only", "--impacted-interfaces", b1, b2]),
            ("abidiff", nd + ["--harmless", "--redundant", "--non-reachable-types", b1, x2]), ("abidiff", nd + [x1, x2]),
            ("abidw", ["--abidiff", b2])]
    if cfg["kind"] == "shared":
        cmds.append(("abipkgdiff", nd + [p1, p2]))
    nontriv = m["lang"] == "cxx" or len(m["types"]) >= 4
    cx.cls("lang=" + m["lang"], "cc=" + cfg["cc"], "kind=" + cfg["kind"], "dwarf=%d" % cfg["dwarf"])
    for tool, args in cmds:
        r = cbuild.tool(tool, args, variant="asan", timeout=300)
        cx.evaluations += 1
        cx.cls("tool=" + tool)
        if nontriv:
            cx.nt({"case": M.sha(case), "cmd": [tool] + [a for a in args if a.startswith("--")]})
        if r.timeout:
            cx.inconclusive += 1
            continue
        err = r.etext()
        if cbuild.crashed(r) or "ERROR: AddressSanitizer" in err or "runtime error:" in err:
            # an internal assertion (abort without a sanitizer report) is another property's business (C01/C02/C33);
            # only memory errors and undefined behaviour count here
            key = cbuild.crash_key(r)
            if key.startswith("assert:"):
                cx.extra["assertion(not counted here):" + key] += 1
                continue
            cx.violation("sanitizer:" + key, dict(r.brief(), files=M.render_files(m)))
            return
    # mutation sweep on the kitchen-sink struct: abidiff (both orders, default and leaf mode alternating) only
    if case.get("sweep"):
        try:
            sb = cbuild.compile_model(case["sweep_base"], cfg, d + "/sweep/base")
        except cbuild.CompileError:
            sb = None
        for k, sw in enumerate(case["sweep"] if sb else []):
            try:
                sm = cbuild.compile_model(sw["mutant"], cfg, d + "/sweep/m%d" % k)
            except cbuild.CompileError:
                continue
            cx.cls("sweep=" + sw["info"]["kind"] + (":" + sw["info"]["how"] if sw["info"].get("how") else ""))
            for a, b, extra in ((sb, sm, []), (sm, sb, ["--leaf-changes-only"])):
                r = cbuild.tool("abidiff", nd + extra + [a, b], variant="asan", timeout=300)
                cx.evaluations += 1
                cx.nt({"case": M.sha(case), "sweep": k, "order": a == sb})
                err = r.etext()
                if not r.timeout and (cbuild.crashed(r) or "ERROR: AddressSanitizer" in err or "runtime error:" in err):
                    key = cbuild.crash_key(r)
                    if key.startswith("assert:"):
                        cx.extra["assertion(not counted here):" + key] += 1
                        continue
                    cx.violation("sanitizer:" + key, dict(r.brief(), mutation=sw["info"], files=M.render_files(sw["mutant"])))
                    return
    cx.sample({"changes": [i["kind"] for i in case["infos"]], "cfg": cfg, "sweep": [x["info"]["kind"] + ":" + str(x["info"].get("how", "")) for x in case.get("sweep", [])], "commands": [[t] + [a for a in args if a.startswith("--")] for t, args in cmds]})
