"""C35 — analysing compiler output is free of memory errors and undefined behaviour."""
import os
from hypothesis import strategies as st
from ..gen import strategies as S, model as M, multi
from .. import cbuild, pairs
from ..runner import Inconclusive

PID = "C35"
LEVEL = "exploration"
VARIANTS = ["asan"]
N = {"quick": 70, "thorough": 1500}
RULE = ("The program-pair generator of the other checks (C and C++ libraries with classes, bases, virtual functions, "
        "templates, bit-fields, anonymous members, aliases, versions, translation units without debug info; gcc/clang, DWARF "
        "4/5, shared/relocatable) feeding the tools rebuilt with clang -fsanitize=address,undefined "
        "(-fno-sanitize-recover=undefined, leak detection off): abidw (default, --load-all-types --annotate), abilint on the "
        "ABIXML, abidiff ELF/ELF, ELF/ABIXML, ABIXML/ABIXML in default, --leaf-changes-only, --harmless --redundant modes, "
        "abidw --abidiff, abipkgdiff on two directories. Oracle: no AddressSanitizer / UndefinedBehaviorSanitizer report and "
        "no fatal signal in any run. Non-trivial = C++ model or a model with at least 4 named types; distinct by SHA-1 of "
        "(case, command).")
ASSUMPTIONS = ["elfutils, libxml2 and libstdc++ are not instrumented: errors inside them are only seen when they fault"]


@st.composite
def strategy_(draw, tier):
    c = draw(multi.multi_pair(tier, lo=0, hi=4))
    c["cfg"]["kind"] = S._pick(draw, ["shared", "shared", "shared", "rel"])
    return c


def strategy(tier):
    return strategy_(tier)


def run_case(case, cx):
    m, m2, cfg = case["model"], case["mutant"], case["cfg"]
    d, b1, b2 = pairs.build_pair(cx, m, m2, cfg, full_debug=False, nodebug_tus=tuple(case["nodebug"]),
                                 sonames=case.get("sonames") if cfg["kind"] == "shared" else None)
    x1, x2 = d + "/v1.abi", d + "/v2.abi"
    p1, p2 = d + "/p1", d + "/p2"
    os.makedirs(p1), os.makedirs(p2)
    os.link(b1, p1 + "/libx.so"), os.link(b2, p2 + "/libx.so"), os.link(b1, p1 + "/liby.so")
    nd = ["--no-default-suppression"]
    cmds = [("abidw", ["--out-file", x1, b1]), ("abidw", ["--load-all-types", "--annotate", "--out-file", x2, b2]),
            ("abilint", [x1]), ("abilint", ["--noout", x2]),
            ("abidiff", nd + [b1, b2]), ("abidiff", nd + ["--leaf-changes-only", "--impacted-interfaces", b1, b2]),
            ("abidiff", nd + ["--harmless", "--redundant", "--non-reachable-types", b1, x2]), ("abidiff", nd + [x1, x2]),
            ("abidw", ["--abidiff", b2])]
    if cfg["kind"] == "shared":
        cmds.append(("abipkgdiff", nd + [p1, p2]))
    nontriv = m["lang"] == "cxx" or len(m["types"]) >= 4
    cx.cls("lang=" + m["lang"], "cc=" + cfg["cc"], "kind=" + cfg["kind"], "dwarf=%d" % cfg["dwarf"])
    for tool, args in cmds:
        r = cbuild.tool(tool, args, variant="asan", timeout=300)
        cx.evaluations += 1
        cx.cls("tool=" + tool)
        if nontriv:
            cx.nt({"case": M.sha(case), "cmd": [tool] + [a for a in args if a.startswith("--")]})
        if r.timeout:
            cx.inconclusive += 1
            continue
        err = r.etext()
        if cbuild.crashed(r) or "ERROR: AddressSanitizer" in err or "runtime error:" in err:
            # an internal assertion (abort without a sanitizer report) is another property's business (C01/C02/C33);
            # only memory errors and undefined behaviour count here
            key = cbuild.crash_key(r)
            if key.startswith("assert:"):
                cx.extra["assertion(not counted here):" + key] += 1
                continue
            cx.violation("sanitizer:" + key, dict(r.brief(), files=M.render_files(m)))
            return
    cx.sample({"changes": [i["kind"] for i in case["infos"]], "cfg": cfg, "commands": [[t] + [a for a in args if a.startswith("--")] for t, args in cmds]})
