"""C22 — a suppression that matches nothing changes nothing."""
from hypothesis import strategies as st
from ..gen import strategies as S, model as M, multi, suppr
from .. import cbuild, pairs
from ..oracle import report as R
from ..runner import Inconclusive

PID = "C22"
LEVEL = "exploration"
N = {"quick": 500, "thorough": 8000}
RULE = ("Pairs (A, B) differing by 1-5 changes of mixed kinds x a generated suppression file of 1-5 sections "
        "([suppress_function], [suppress_variable], [suppress_type], [suppress_file]); every section holds one property "
        "that cannot be satisfied by the generated binaries (names / regexps over a reserved prefix no program uses, symbol "
        "versions that do not exist, name_not_regexp = .*, file / SONAME patterns matching neither binary, an existing type "
        "name with a type_kind it does not have) plus 0-3 arbitrary further properties (change_kind, label, "
        "accessed_through, has_data_member_inserted_*, drop ...). Modes: default, --leaf-changes-only, --harmless. Oracle "
        "(differential): stdout and exit status identical to the run without --suppressions. Non-trivial = the baseline "
        "report is non-empty; distinct by SHA-1 of the case.")
ASSUMPTIONS = ["properties inside a section are conjunctive, as documented in libabigail-concepts.rst"]


DROP = "drop-path-ignores-constraints"
BARE = "non-symbol-properties-ignored-for-symbols-without-debug-info"


def bare_symbols_only(a, b):
    """True when the two reports differ only in the lines about symbols not referenced by debug info."""
    def strip(t):
        out, skip = [], False
        for l in t.split("\n"):
            if "symbols changes summary" in l or "symbol changes summary" in l or l.startswith("Leaf changes summary:"):
                continue    # (the leaf-mode total counts the bare symbols too)
            if l and not l.startswith(" "):
                skip = "not referenced by debug info:" in l
            if skip:
                continue
            out.append(l)
        return [l for l in out if l.strip()]
    return strip(a) == strip(b)


@st.composite
def strategy_(draw, tier):
    c = draw(multi.multi_pair(tier, lo=1, hi=5, symonly_pct=10))
    c["suppr"], c["skinds"] = suppr.unsatisfiable(draw, c["model"], c["mutant"])
    c["mode"] = S._pick(draw, [[], [], ["--leaf-changes-only"], ["--harmless"]])
    return c


def strategy(tier):
    return strategy_(tier)


def run_case(case, cx):
    m, m2, cfg = case["model"], case["mutant"], case["cfg"]
    d, b1, b2 = pairs.build_pair(cx, m, m2, cfg, nodebug_tus=tuple(case["nodebug"]), sonames=case.get("sonames"))
    sp = d + "/s.suppr"
    open(sp, "w").write(case["suppr"])
    base = pairs.abidiff(cx, b1, b2, case["mode"])
    r = pairs.abidiff(cx, b1, b2, case["mode"] + ["--suppressions", sp])
    for x in (base, r):
        if cbuild.crashed(x):
            cx.violation("crash:" + cbuild.crash_key(x), dict(x.brief(), suppr=case["suppr"]))
            return
    for k in case["skinds"]:
        cx.cls("sec=" + k)
    cx.cls("mode=" + (" ".join(case["mode"]) or "default"), "baseline_rc=%d" % base.rc)
    if base.out.strip():
        cx.nt(case)
    cx.sample({"suppr": case["suppr"], "mode": case["mode"], "baseline_rc": base.rc, "rc": r.rc})
    if r.rc != base.rc or r.out != base.out:
        import difflib
        # Recorded defect: for ELF symbols without debug info only the symbol_name* / symbol_version* properties of a
        # [suppress_function] / [suppress_variable] section are evaluated; its other properties (type_name, name,
        # return_type_name, parameter, name_not_regexp ...) are ignored, so a section that is unsatisfiable because of one
        # of those still hides such symbols.  Recognised only when (a) every line that differs belongs to the "symbols not
        # referenced by debug info" summary lines / sections, and (b) some section pairs a symbol_* property with a
        # non-symbol killer.
        if bare_symbols_only(base.text(), r.text()) and any(
                k.split(":")[0] in ("suppress_function", "suppress_variable") and not k.split(":")[1].startswith(("symbol_", "file_", "soname_"))
                for k in case["skinds"]) and "symbol_" in case["suppr"]:
            cx.violation(BARE, {"suppr": case["suppr"], "baseline": base.brief(), "with_suppr": r.brief()})
            return
        # Second recorded defect: `drop = yes` is applied while the binaries are read, by a separate matching path that
        # evaluates only a few properties and not conjunctively: for types only name / source location (type_kind etc.
        # are ignored), for functions and variables "name matches OR symbol name matches" (the other properties of the
        # section, change_kind included, are ignored).  Recognised only when the file has a section with `drop = yes`
        # and the very same file without its `drop = yes` lines leaves the report untouched; keyed by section kind.
        import re
        dropsecs = sorted(set(sec.split("]")[0][1:] for sec in re.split(r"\n(?=\[)", case["suppr"]) if "drop = yes" in sec))
        if dropsecs:
            open(d + "/s2.suppr", "w").write(case["suppr"].replace("  drop = yes\n", ""))
            r2 = pairs.abidiff(cx, b1, b2, case["mode"] + ["--suppressions", d + "/s2.suppr"])
            if r2.rc == base.rc and r2.out == base.out:
                cx.violation(DROP + ":" + dropsecs[0], {"suppr": case["suppr"], "baseline": base.brief(), "with_suppr": r.brief()})
                return
        dl = list(difflib.unified_diff(base.text().split("\n"), r.text().split("\n"), lineterm="", n=1))[:40]
        cx.violation("unmatched-suppression-changes-report", {"suppr": case["suppr"], "mode": case["mode"], "baseline_rc": base.rc,
                                                              "rc": r.rc, "diff": dl, "stderr": r.etext()[:500]})
