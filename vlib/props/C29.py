"""C29 — abicompat judges only the interfaces the application uses."""
import os, copy
from hypothesis import strategies as st
from ..gen import strategies as S, model as M, mutate as MU, multi
from .. import cbuild, pairs
from ..oracle import report as R
from ..runner import Inconclusive

PID = "C29"
LEVEL = "exploration"
N = {"quick": 400, "thorough": 6000}
RULE = ("A generated C library LIB1, an application that really links against it and calls / reads a random subset U of "
        "its functions and variables (so that they are undefined symbols of the application), and LIB2 = LIB1 with 1-3 "
        "mutations, each confined either to interfaces in U or to interfaces outside U (private causes: signature changes "
        "over builtin types, removals, additions). Oracle from the model: (a) `abicompat APP LIB1 LIB2` with a removal in U "
        "=> ABI_CHANGE and INCOMPATIBLE bits and the removed name is listed; a signature change in U => ABI_CHANGE and the "
        "name is listed; (b) when every mutation is outside U the exit status is 0 and nothing is reported, exactly as for "
        "`abicompat APP LIB1 LIB1`; (c) weak mode `abicompat --weak-mode APP LIB2` with APP built against the old headers: a "
        "member inserted into struct wt, which only the used function fnw reaches, is reported (ABI_CHANGE, fnw named). Non-trivial = U and "
        "its complement both hold a function, and the library has a variable; distinct by SHA-1 of the case.")
ASSUMPTIONS = ["an interface is 'used' iff it is an undefined symbol of the linked application (readelf confirms it per case)"]
SIG = ["param_type", "return_type", "add_param", "remove_param", "var_type"]
UNUSED_VARS = "unused-variable-judged-when-application-uses-no-variable"


def builtin_only(m):
    from .C23 import json_roundtrip_builtin_only
    return json_roundtrip_builtin_only(m)


@st.composite
def strategy_(draw, tier):
    m = draw(S.library(lang="c", max_types=1, min_funcs=3, max_funcs=8, max_vars=4, max_tus=2, symfeatures=False,
                       statics=False, kind_w=[("enum", 1)]))
    for t in m["types"]:
        t["name"] = "unused_" + t["name"]
    m = builtin_only(m)
    # one struct with a private user: fnw is the only interface that reaches struct wt
    wm = [{"name": "w%d" % i, "type": ["b", S._pick(draw, ["char", "short", "int", "long", "double"])], "bits": None}
          for i in range(draw(st.integers(1, 4)))]
    m["types"].append({"kind": "struct", "name": "wt", "members": wm})
    byval = draw(st.booleans())
    m["funcs"].append({"name": "fnw", "ret": ["b", "int"], "params": [{"name": "p0", "type": ["n", "wt"] if byval else ["p", ["n", "wt"]]}],
                       "variadic": False, "tu": 0, "body": 1})
    # some interface names are proper prefixes of others (conn_send / conn_send_all): symbol ids must be compared whole
    ifs = [i for k, i in M.interfaces(m) if i["name"] != "fnw"]
    for _ in range(draw(st.integers(0, 2))):
        a, b = S._pick(draw, ifs), S._pick(draw, ifs)
        if a is not b and a["name"].startswith(("fn", "var")) and b["name"].startswith(a["name"][:2]) and "_" not in b["name"] \
                and "_" not in a["name"] and ("params" in a) == ("params" in b):
            b["name"] = a["name"] + S._pick(draw, ["_all", "x", "2", "_"])
    names = [i["name"] for k, i in M.interfaces(m)]
    if len(set(names)) != len(names):
        names = None
    used = sorted(set(n for n in (names or []) if draw(st.booleans())))
    if names is None:
        return {"model": m, "mutant": m, "used": [], "muts": [], "target_used": False, "cfg": draw(S.build_config())}
    if not any(n.startswith("fn") for n in used):
        used.append(next(n for n in names if n.startswith("fn")))
    novars = draw(st.integers(0, 3)) == 0
    if novars:
        used = [n for n in used if not n.startswith("var")]
    target_used = draw(st.booleans())
    cur, muts = m, []
    for _ in range(draw(st.integers(1, 3))):
        what = S._weighted(draw, [("sig", 45), ("remove", 25), ("add", 10), ("wt", 20)])
        if what == "wt":
            if ("fnw" in used) != target_used or any(x["kind"] == "wt_insert" for x in muts) or \
                    "fnw" not in [f["name"] for f in cur["funcs"]] or any(x.get("iface") == "fnw" for x in muts):
                continue
            m2 = copy.deepcopy(cur)
            t = M.type_index(m2)["wt"]
            t["members"].insert(draw(st.integers(0, len(t["members"]))),
                                {"name": "wins", "type": ["b", S._pick(draw, ["char", "int", "long", "double"])], "bits": None})
            muts.append({"kind": "wt_insert", "iface": "fnw", "removed": []})
            cur = m2
            continue
        pool = [n for n in [i["name"] for k, i in M.interfaces(cur)] if (n in used) == target_used and n in names
                and n not in [x["iface"] for x in muts if "iface" in x]]
        if what == "add":
            if target_used:
                continue
            m2, info = multi.add_interface(draw, cur)
        else:
            if not pool:
                continue
            tgt = S._pick(draw, pool)
            sub = copy.deepcopy(cur)
            # restrict the mutation to the chosen interface by hiding the others from the mutation catalog
            keepf = [f for f in sub["funcs"] if f["name"] == tgt]
            keepv = [v for v in sub["vars"] if v["name"] == tgt]
            view = dict(sub, funcs=keepf, vars=keepv)
            only = (["remove_fn"] if keepf else ["remove_var"]) if what == "remove" else SIG
            if what == "remove":
                m2 = copy.deepcopy(cur)
                m2["funcs"] = [f for f in m2["funcs"] if f["name"] != tgt]
                m2["vars"] = [v for v in m2["vars"] if v["name"] != tgt]
                info = {"kind": "remove_fn" if keepf else "remove_var", "iface": tgt, "removed": [tgt]}
            else:
                v2, info = MU.breaking(draw, view, only=only)
                if v2 is None:
                    continue
                m2 = copy.deepcopy(cur)
                for lst in ("funcs", "vars"):
                    m2[lst] = [next((y for y in v2[lst] if y["name"] == x["name"]), x) for x in m2[lst]]
        muts.append(info)
        cur = m2
    return {"model": m, "mutant": cur, "used": used, "muts": muts, "target_used": target_used, "cfg": draw(S.build_config())}


def strategy(tier):
    return strategy_(tier)


def app_source(m, used):
    out = ['#include "types.h"']
    idx = dict((i["name"], (k, i)) for k, i in M.interfaces(m))
    body = []
    n = 0
    for name in used:
        k, i = idx[name]
        if k == "fn":
            out.append("extern " + M.fn_proto(m, i, False) + ";")
            args = []
            for p in i["params"]:
                pt = M.strip_cv(p["type"])
                if pt == ["p", ["n", "wt"]]:
                    # a real object, so that the application's debug info carries its own view of struct wt
                    out.append("static struct wt obj%d;" % n)
                    args.append("&obj%d" % n)
                else:
                    out.append("static " + M.decl(m, pt, "arg%d" % n, False) + ";")
                    args.append("arg%d" % n)
                n += 1
            if i.get("variadic"):
                args.append("0")
            call = "%s(%s)" % (name, ", ".join(args))
            body.append("  if (argc > 100) { %s; }" % call)
        else:
            out.append("extern " + M.decl(m, i["type"], name, False) + ";")
            body.append("  if (argc > 100) sink = (void *) &%s;" % name)
    out.append("void *volatile sink;")
    out.append("int main(int argc, char **argv)\n{")
    out += body
    out.append("  return 0;\n}")
    return "\n".join(out) + "\n"


def run_case(case, cx):
    m, m2, used, muts, cfg = case["model"], case["mutant"], case["used"], case["muts"], case["cfg"]
    if not muts:
        cx.cls("no-mutation")
        return
    d, l1, l2 = pairs.build_pair(cx, m, m2, cfg)
    cc = cbuild.CC[(cfg["cc"], "c")]
    cbuild.write_files(d + "/app", {"types.h": M.render_header(m), "main.c": app_source(m, used)})
    rc, so, se = cbuild.sh([cc, "-g", "-gdwarf-%d" % cfg["dwarf"], "-O0", "-w", "-fPIC", "main.c", l1, "-o", "app"], cwd=d + "/app")
    if rc:
        cx.cls("app-compile-error")
        cx.extra["app_compile_error:" + se.decode(errors="replace")[-100:]] += 0
        raise Inconclusive(se.decode(errors="replace")[-500:])
    app = d + "/app/app"
    from ..oracle import elf
    und = set(s.name for s in elf.read_symtabs(app).get(".dynsym", []) if s.ndx == "UND")
    really = [n for n in used if n in und]
    if sorted(really) != sorted(used):
        cx.cls("used-not-undefined")
        raise Inconclusive("not every used interface is an undefined symbol: %s vs %s" % (really, used))
    names1 = [i["name"] for k, i in M.interfaces(m)]
    hasvar = any(n.startswith("var") for n in names1)
    if any(n.startswith("fn") for n in used) and any(n.startswith("fn") and n not in used for n in names1) and hasvar:
        cx.nt(case)
    kinds = [x["kind"] for x in muts]
    cx.cls("target=" + ("used" if case["target_used"] else "unused"), "app-uses-variable=%s" % any(n.startswith("var") for n in used))
    for k in kinds:
        cx.cls("mut=" + k)
    base = cbuild.tool("abicompat", [app, l1, l1])
    r = cbuild.tool("abicompat", [app, l1, l2])
    cx.evaluations += 1
    for x in (base, r):
        if cbuild.crashed(x):
            cx.violation("crash:" + cbuild.crash_key(x), x.brief())
            return
        if not R.status_bits_ok(x.rc):
            cx.violation("undocumented-status:%d" % x.rc, x.brief())
            return
    cx.sample({"used": used, "mutations": muts, "rc": r.rc, "report_head": r.text()[:400]})
    det = {"used": used, "mutations": muts, "run": r.brief(), "self": base.brief(), "app": app_source(m, used)}
    if base.rc != 0 or base.out.strip():
        cx.violation("library-incompatible-with-itself", det)
        return
    if not case["target_used"]:
        if r.rc != base.rc or r.out != base.out:
            vnames = set(v["name"] for mm in (m, m2) for v in mm["vars"])
            if not any(n.startswith("var") for n in used) and only_vars_reported(r.text(), vnames):
                cx.violation(UNUSED_VARS, det)
                return
            cx.violation("change-outside-used-set-alters-verdict", det)
        return
    removed = [x["iface"] for x in muts if x["kind"] in ("remove_fn", "remove_var")]
    changed = [x["iface"] for x in muts if x["kind"] not in ("remove_fn", "remove_var")]
    if not r.rc & R.STATUS_CHANGE or r.rc & R.STATUS_ERROR:
        cx.violation("used-interface-change-not-reported:" + kinds[0], det)
        return
    if removed and not r.rc & R.STATUS_INCOMPAT:
        cx.violation("used-interface-removal-not-incompatible", det)
        return
    for n in removed + changed:
        if not pairs.mentions([r.text()], n):
            cx.violation("used-interface-not-named:" + ("removed" if n in removed else "changed"), dict(det, interface=n))
            return
    # weak mode: APP was built against the old headers (old layout of struct wt), LIB2 is what it finds at run time.
    # abicompat's weak mode compares the *types* the application knows with the library's types of the same name, for the
    # interfaces the application uses; a mere signature change over builtin types is outside what it looks at.
    if any(x["kind"] == "wt_insert" for x in muts) and "fnw" not in removed:
        w = cbuild.tool("abicompat", ["--weak-mode", app, l2])
        cx.evaluations += 1
        if cbuild.crashed(w):
            cx.violation("crash:" + cbuild.crash_key(w), w.brief())
            return
        cx.cls("weak-mode")
        if not w.rc & R.STATUS_CHANGE or w.rc & R.STATUS_ERROR:
            cx.violation("weak-mode-type-mismatch-not-reported", dict(det, weak=w.brief()))
        elif not pairs.mentions([w.text()], "fnw"):
            cx.violation("weak-mode-report-does-not-name-the-used-interface", dict(det, weak=w.brief()))


def only_vars_reported(text, vnames):
    """Every [D]/[A]/[C] entry of the report is about a variable of the model."""
    ents = [l for l in text.split("\n") if l.startswith("  [")]
    return bool(ents) and all(any(pairs.mentions([e], v) for v in vnames) for e in ents)
