"""C38 — the sequence diff engine computes correct shortest edit scripts."""
from .. import cxxprop, runner

PID = "C38"
LEVEL = "exploration"
HARNESS = "c38_diffutils"
SOURCES = ["c38_diffutils.cc"]
RULE = ("Exhaustive tier: every ordered pair of sequences of length <= L over {a,b,c} (L=5 quick, 7 thorough), each through three "
        "compute_diff entry points (functor+ses_len, default functor, sub-region with bases) plus a case-insensitive predicate; "
        "random tier (rapidcheck): sequences up to 300 elements over alphabets of 2..26 letters in two cases, B independent or an "
        "edited copy of A, predicate in {==, case-insensitive, equal modulo 3}. Oracle: reference O(nm) LCS; script length == "
        "|A|+|B|-2*LCS; indices distinct and in range; A minus deletions equals B minus insertions under the predicate; literal "
        "application of the script yields B; lcs points valid, strictly increasing, of length LCS. Non-trivial = both "
        "sequences non-empty and different (counted by the harness; enumeration never repeats a case).")
ASSUMPTIONS = ["the reference LCS dynamic program in the harness is correct (12 lines)"]


def jobs(tier, seed):
    L = 5 if tier == "quick" else 7
    n = 16
    js = [(["--exhaustive", str(L), "--part", str(i), "--nparts", str(n)], {}) for i in range(n)]
    cnt = 3000 if tier == "quick" else 40000
    for k in range(8):
        js.append((["--random"], {"RC_PARAMS": "seed=%d max_success=%d max_size=200" % (seed * 100 + k + 1, cnt // 8)}))
    return js


def main(tier):
    import sys
    return cxxprop.run(PID, tier, sys.modules[__name__])


def run_case(case, cx):
    rc, out = cxxprop.replay(HARNESS, "plain", SOURCES, case["witness"])
    if rc != 0:
        for l in out.splitlines():
            if l.startswith("FAIL "):
                cx.violation(l[5:].strip(), {"witness": case["witness"]})
