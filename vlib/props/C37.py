"""C37 — hash-table symbol lookup agrees with the symbol table."""
import os, re, struct, random
from hypothesis import strategies as st
from ..gen import strategies as S, model as M
from .. import cbuild
from ..oracle import elf
from ..runner import Inconclusive

PID = "C37"
LEVEL = "exploration"
N = {"quick": 200, "thorough": 3000}
RULE = ("Generated shared objects with 1-400 exported functions and variables (identifier lengths 1-40, about 20% with a "
        "default symbol version from a version script, and about 8% of the functions present under two or three versions -- "
        "n@VERS_1, n@@VERS_2: several .dynsym entries of one name), linked by ld.bfd or ld.lld with --hash-style=sysv, gnu or both "
        "(lld places .gnu.hash before .hash, bfd after). Queries to `abisym`: every defined dynamic symbol (up to 40 per "
        "object, always including the first and last of .dynsym) must be found, and the set of versions abisym prints must equal the set of versions of the .dynsym entries of that name "
        "that readelf shows; absent names "
        "built to fall into occupied SysV buckets / GNU buckets and to pass the GNU bloom filter (hash functions and table "
        "geometry re-implemented in Python from the ELF bytes) must not be found. Non-trivial = at least one colliding absent "
        "query; distinct by SHA-1 of (case); all six linker x style cells are generated.")
ASSUMPTIONS = ["readelf --dyn-syms is the ground truth for the dynamic symbol table"]
ALPHA = "abcdefghijklmnopqrstuvwxyzABCDEFGHIJKLMNOPQRSTUVWXYZ_0123456789"


def sysv_hash(name):
    h = 0
    for c in name.encode():
        h = ((h << 4) + c) & 0xFFFFFFFF
        g = h & 0xF0000000
        if g:
            h ^= g >> 24
        h &= ~g & 0xFFFFFFFF
    return h


def gnu_hash(name):
    h = 5381
    for c in name.encode():
        h = (h * 33 + c) & 0xFFFFFFFF
    return h


def hash_sections(path):
    """{'sysv': nbucket, 'gnu': (nbuckets, symoffset, bloom_size, bloom_shift, bloom_words, buckets), 'order': [...]}"""
    data = open(path, "rb").read()
    shoff, = struct.unpack_from("<Q", data, 0x28)
    shentsize, shnum = struct.unpack_from("<HH", data, 0x3A)
    out = {"order": []}
    for i in range(shnum):
        name, typ, flags, addr, off, size = struct.unpack_from("<IIQQQQ", data, shoff + i * shentsize)
        if typ == 5:
            nb, nc = struct.unpack_from("<II", data, off)
            buckets = struct.unpack_from("<%dI" % nb, data, off + 8)
            out["sysv"] = (nb, buckets)
            out["order"].append("sysv")
        elif typ == 0x6ffffff6:
            nb, symoff, bsz, bsh = struct.unpack_from("<IIII", data, off)
            bloom = struct.unpack_from("<%dQ" % bsz, data, off + 16)
            buckets = struct.unpack_from("<%dI" % nb, data, off + 16 + 8 * bsz)
            out["gnu"] = (nb, symoff, bsz, bsh, bloom, buckets)
            out["order"].append("gnu")
    return out


@st.composite
def strategy_(draw, tier):
    n = draw(st.integers(1, 400 if draw(st.booleans()) else 30))
    seed = draw(st.integers(0, 2 ** 32 - 1))
    return {"n": n, "seed": seed, "linker": S._pick(draw, ["bfd", "lld"]), "hash": S._pick(draw, ["sysv", "gnu", "both"]),
            "cc": S._pick(draw, ["gcc", "clang"])}


def strategy(tier):
    return strategy_(tier)


def run_case(case, cx):
    rnd = random.Random(case["seed"])     # data derived deterministically from the generated seed value
    names = set()
    while len(names) < case["n"]:
        l = rnd.choice([1, 2, 3, 5, 8, 13, 21, 40]) if rnd.random() < 0.5 else rnd.randint(1, 40)
        nm = rnd.choice(ALPHA[:53]) + "".join(rnd.choice(ALPHA) for _ in range(l - 1))
        if nm not in ("main", "if", "do", "int", "for") and not re.match(r"^(_[A-Z_]|__)", nm):
            names.add("s_" + nm if rnd.random() < 0.3 else nm)
    names = sorted(names)
    ckw = {"auto", "break", "case", "char", "const", "continue", "default", "do", "double", "else", "enum", "extern", "float", "for",
           "goto", "if", "int", "long", "register", "return", "short", "signed", "sizeof", "static", "struct", "switch",
           "typedef", "union", "unsigned", "void", "volatile", "while", "inline", "restrict", "asm", "typeof", "main"}
    names = [n for n in names if n not in ckw]
    ver = {}
    multi = {}
    src = []
    for k, n in enumerate(names):
        if rnd.random() < 0.3:
            src.append("int %s = %d;" % (n, k))
        elif rnd.random() < 0.12 and case.get("multi", True):
            # one name with two or three versions (n@VERS_1, [n@VERS_2,] n@@VERS_k): several .dynsym entries with the same
            # name, which a hash chain holds one after the other
            nv = rnd.choice([2, 2, 3])
            multi[n] = nv
            for j in range(1, nv + 1):
                src.append("int impl%d_%d(void) { return %d; }" % (k, j, k + j))
                src.append('__asm__(".symver impl%d_%d,%s%s%s");' % (k, j, n, "@@" if j == nv else "@", "VERS_%d" % j))
        else:
            src.append("int %s(void) { return %d; }" % (n, k))
            if rnd.random() < 0.2:
                ver[n] = rnd.choice(["VERS_1", "VERS_2"])
    d = cx.dir()
    cbuild.write_files(d, {"lib.c": "\n".join(src) + "\n"})
    ld = ["-shared", "-Wl,--hash-style=" + case["hash"]]
    if ver or multi:
        vs = []
        prev = None
        allv = set(ver.values()) | set("VERS_%d" % j for n, nv in multi.items() for j in range(1, nv + 1))
        for v in sorted(allv):
            globs = sorted([n for n in ver if ver[n] == v] + [n for n, nv in multi.items() if int(v[5:]) <= nv])
            vs.append("%s { global: %s }%s;" % (v, " ".join(n + ";" for n in globs), (" " + prev) if prev else ""))
            prev = v
        open(d + "/vers.map", "w").write("\n".join(vs) + "\n")
        ld.append("-Wl,--version-script=vers.map")
    if case["linker"] == "lld":
        ld.append("-fuse-ld=lld")
    rc, so, se = cbuild.sh([case["cc"], "-fPIC", "-w", "-O0", "lib.c"] + ld + ["-o", "lib.so"], cwd=d)
    if rc:
        cx.cls("compile-error")
        cx.extra["compile_error:" + se.decode(errors="replace")[-100:]] += 0
        raise Inconclusive(se.decode(errors="replace")[-400:])
    b = d + "/lib.so"
    dyn = [s for s in elf.read_symtabs(b).get(".dynsym", []) if s.ndx != "UND" and s.name and s.type in ("FUNC", "OBJECT")
           and s.ndx != "ABS"]
    hs = hash_sections(b)
    cx.cls("cell=%s/%s" % (case["linker"], case["hash"]), "order=" + ">".join(hs["order"]), "nsyms=%s" % ("1-30" if case["n"] <= 30 else "31-400"))
    present = set(s.name for s in dyn)
    # queries for present symbols
    q = dyn[:1] + dyn[-1:] + rnd.sample(dyn, min(len(dyn), 34))
    mv = sorted(set(x.name for x in dyn if sum(1 for y in dyn if y.name == x.name) > 1))
    q += [x for x in dyn if x.name in mv[:4] and x.default]
    cx.cls("multi_version_names=%s" % ("0" if not mv else "1+"))
    det = {"case": case, "hash_sections": hs["order"], "n_dynsyms": len(dyn)}
    for s in q:
        r = cbuild.tool("abisym", [b, s.name])
        cx.evaluations += 1
        if cbuild.crashed(r):
            cx.violation("crash:" + cbuild.crash_key(r), dict(det, query=s.name, run=r.brief()))
            return
        txt = r.text()
        if not txt.startswith("found symbol '%s'" % s.name):
            cx.violation("defined-symbol-not-found", dict(det, query=s.name, run=r.brief()))
            return
        got = set(re.findall(r"'([^']*)'", txt.split(", of version", 1)[1])) if ", of version" in txt else set()
        want = set(x.version for x in dyn if x.name == s.name and x.version)
        if got - {""} != want:
            cx.violation("version-mismatch", dict(det, query=s.name, expected_versions=sorted(want), run=r.brief()))
            return
    # absent names that collide
    occupied_sysv = occupied_gnu = None
    if "sysv" in hs:
        nb, buckets = hs["sysv"]
        occupied_sysv = set(i for i, x in enumerate(buckets) if x)
    if "gnu" in hs:
        nb_g, symoff, bsz, bsh, bloom, gb = hs["gnu"]
        occupied_gnu = set(i for i, x in enumerate(gb) if x)
    absent = []
    tries = 0
    base = [s.name for s in dyn] or ["x"]
    while len(absent) < 12 and tries < 4000:
        tries += 1
        if tries % 2:
            nm = rnd.choice(base) + rnd.choice(ALPHA)           # a defined name with one more character
        else:
            nm = "".join(rnd.choice(ALPHA[:52]) for _ in range(rnd.randint(1, 12)))
        if nm in present or nm in absent:
            continue
        ok = True
        if occupied_sysv is not None and nb and sysv_hash(nm) % nb not in occupied_sysv:
            ok = False
        if occupied_gnu is not None:
            h = gnu_hash(nm)
            word = bloom[(h // 64) % bsz] if bsz else 0
            if not (word >> (h % 64)) & 1 or not (word >> ((h >> bsh) % 64)) & 1 or (nb_g and h % nb_g not in occupied_gnu):
                ok = False
        if ok:
            absent.append(nm)
    if absent:
        cx.nt(case)
    cx.cls("colliding_absent=%d" % min(len(absent), 12))
    for nm in absent + ["zzq_absent_plain"]:
        r = cbuild.tool("abisym", [b, nm])
        cx.evaluations += 1
        if cbuild.crashed(r):
            cx.violation("crash:" + cbuild.crash_key(r), dict(det, query=nm, run=r.brief()))
            return
        if r.text().startswith("found symbol"):
            cx.violation("absent-symbol-found", dict(det, query=nm, run=r.brief()))
            return
    cx.sample({"case": case, "order": hs["order"], "n_dynsyms": len(dyn), "queried": len(q), "colliding_absent": absent[:5]})
