"""C39 — INI configurations survive write/read round trips."""
from .. import cxxprop

PID = "C39"
LEVEL = "exploration"
HARNESS = "c39_ini"
SOURCES = ["c39_ini.cc"]
RULE = ('rapidcheck. Part 1: random configurations (1-3 sections, 1-4 properties each: valueless, simple, list of 2-4 items, tuples nested up to depth 3 mixing strings, lists and tuples) whose names/values use characters the grammar reads back unescaped (values never start with a delimiter, no leading/trailing blanks); write_config -> read_config must give the same configuration in normal form (adjacent string/list items of a tuple are one list because the text `{a, b}` cannot tell them apart; empty value == missing value). Part 2: random texts from INI tokens (sections, properties, lists, tuples, comments, escapes, stray delimiters): read -> write -> read equals the first read. Non-trivial: part 1 configuration with a list or tuple; part 2 text that parses to >= 1 section. Counted by the harness.')
ASSUMPTIONS = ['list_property_value has no out-of-line destructor in the public header, so the harness allocates list values and never frees them']
COUNTS = {'quick': 16000, 'thorough': 400000}


def jobs(tier, seed):
    n = COUNTS[tier]
    return [(["--random"], {"RC_PARAMS": "seed=%d max_success=%d max_size=100" % (seed * 100 + k + 1, n // 8)}) for k in range(8)]


def main(tier):
    import sys
    return cxxprop.run(PID, tier, sys.modules[__name__])


def run_case(case, cx):
    rc, out = cxxprop.replay(HARNESS, "plain", SOURCES, case["witness"])
    if rc != 0:
        hit = False
        for l in out.splitlines():
            if l.startswith("FAIL "):
                hit = True
                cx.violation(l[5:].strip(), {"witness": case["witness"], "output": out[-1500:]})
        if not hit:
            cx.violation("crash:signal", {"witness": case["witness"], "output": out[-1500:]})
