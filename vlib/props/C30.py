"""C30 — abipkgdiff's verdict covers every binary in the packages."""
import os, re, copy, tarfile
from hypothesis import strategies as st
from ..gen import strategies as S, model as M, multi
from .. import cbuild, pairs
from ..oracle import report as R
from ..runner import Inconclusive

PID = "C30"
LEVEL = "exploration"
N = {"quick": 250, "thorough": 4000}
RULE = ("Pairs of package directories (and, for a third of the cases, .tar archives of them) holding 2-6 generated shared "
        "libraries; per library one of: unchanged, changed (1-3 mutations of mixed kinds), removed from the second package, "
        "added to it. Oracle: a removed binary => exit status has ABI_CHANGE and ABI_INCOMPATIBLE_CHANGE; for every matched "
        "pair, the pair has a 'changes of <lib>' section in abipkgdiff's report exactly when `abidiff` on that pair (same "
        "options) exits non-zero, and abipkgdiff's status has every bit abidiff sets for that pair; exit status 0 <=> nothing "
        "removed and every matched pair compares clean; documented bits only. Non-trivial = at least one removal or changed "
        "pair and at least 3 libraries; distinct by SHA-1 of the case.")
ASSUMPTIONS = ["rpm / deb / cpio tooling is absent from this sandbox: packages are directories and tar archives"]


@st.composite
def strategy_(draw, tier):
    n = draw(st.integers(2, 6))
    cfg = draw(S.build_config())
    libs = []
    for i in range(n):
        fate = S._weighted(draw, [("same", 35), ("changed", 35), ("removed", 15), ("added", 15)])
        m = draw(S.library(lang="c", max_types=4, min_funcs=1, max_funcs=4, max_vars=2, max_tus=1, symfeatures=False, statics=False))
        m2, infos = m, []
        if fate == "changed":
            m2, infos = multi.mutate_many(draw, m, 1, 3)
        libs.append({"name": "lib%c.so" % (97 + i), "fate": fate, "model": m, "mutant": m2, "kinds": [x["kind"] for x in infos]})
    return {"libs": libs, "cfg": cfg, "tar": draw(st.integers(0, 2)) == 0,
            "opts": S._pick(draw, [[], [], ["--no-parallel"], ["--leaf-changes-only"], ["--redundant"], ["--no-added-binaries"]])}


def strategy(tier):
    return strategy_(tier)


def run_case(case, cx):
    cfg = case["cfg"]
    d = cx.dir()
    p1, p2 = d + "/pkg1", d + "/pkg2"
    os.makedirs(p1 + "/usr/lib"), os.makedirs(p2 + "/usr/lib")
    pair = {}
    try:
        for k, lib in enumerate(case["libs"]):
            b1 = cbuild.compile_model(lib["model"], cfg, d + "/b/%d/v1" % k) if lib["fate"] != "added" else None
            b2 = cbuild.compile_model(lib["mutant"], cfg, d + "/b/%d/v2" % k) if lib["fate"] != "removed" else None
            if b1:
                os.link(b1, p1 + "/usr/lib/" + lib["name"])
            if b2:
                os.link(b2, p2 + "/usr/lib/" + lib["name"])
            if b1 and b2:
                pair[lib["name"]] = (b1, b2)
    except cbuild.CompileError as e:
        cx.cls("compile-error")
        raise Inconclusive(str(e))
    a1, a2 = p1, p2
    if case["tar"]:
        for p in (p1, p2):
            with tarfile.open(p + ".tar", "w") as t:
                t.add(p, arcname=os.path.basename(p))
        a1, a2 = p1 + ".tar", p2 + ".tar"
    opts = ["--no-default-suppression"] + case["opts"]
    r = cbuild.tool("abipkgdiff", opts + [a1, a2], timeout=300)
    if r.timeout:
        raise Inconclusive("timeout")
    fates = [l["fate"] for l in case["libs"]]
    cx.cls("nlibs=%d" % len(fates), "tar=%s" % case["tar"], "opts=" + (" ".join(case["opts"]) or "default"))
    for f in fates:
        cx.cls("fate=" + f)
    if cbuild.crashed(r):
        cx.violation("crash:" + cbuild.crash_key(r), r.brief())
        return
    if not R.status_bits_ok(r.rc):
        cx.violation("undocumented-status:%d" % r.rc, r.brief())
        return
    if r.rc & R.STATUS_ERROR:
        cx.violation("error-status-on-valid-packages", r.brief())
        return
    text = r.text()
    sections = set(re.findall(r"^=+ changes of '([^']+)'=+$", text, re.M))
    dopts = ["--no-default-suppression"] + [o for o in case["opts"] if o in ("--leaf-changes-only", "--redundant")]
    verdicts = {}
    for name, (b1, b2) in pair.items():
        x = cbuild.tool("abidiff", dopts + [b1, b2])
        cx.evaluations += 1
        if cbuild.crashed(x) or x.rc & R.STATUS_ERROR:
            raise Inconclusive("abidiff failed on a pair")
        verdicts[name] = x.rc
    removed = [l["name"] for l in case["libs"] if l["fate"] == "removed"]
    if (removed or any(verdicts.values())) and len(fates) >= 3:
        cx.nt(case)
    cx.sample({"fates": dict((l["name"], l["fate"]) for l in case["libs"]), "opts": opts, "rc": r.rc,
               "abidiff_verdicts": verdicts, "sections": sorted(sections)})
    det = {"fates": dict((l["name"], (l["fate"], l["kinds"])) for l in case["libs"]), "run": r.brief(), "abidiff_verdicts": verdicts}
    if removed and (r.rc & 12) != 12:
        cx.violation("removed-binary-not-incompatible", det)
        return
    for name, v in verdicts.items():
        if bool(v) != (name in sections):
            cx.violation("per-binary-verdict-disagrees-with-abidiff:" + ("missing-section" if v else "spurious-section"),
                         dict(det, binary=name))
            return
        if v & ~r.rc:
            cx.violation("status-lacks-bits-of-a-changed-pair", dict(det, binary=name))
            return
    expect_zero = not removed and not any(verdicts.values())
    if expect_zero != (r.rc == 0):
        cx.violation("exit-status-%s-but-%s" % (r.rc, "everything-clean" if expect_zero else "something-changed"), det)
