"""C14 — outputs are deterministic."""
import os
from hypothesis import strategies as st
from ..gen import strategies as S, model as M, multi
from .. import cbuild, pairs
from ..runner import Inconclusive

PID = "C14"
LEVEL = "exploration"
N = {"quick": 200, "thorough": 3000}
RULE = ("Generated library pairs (1-5 changes); each of `abidw A`, `abidw --load-all-types --annotate B`, `abidiff A B`, "
        "`abidiff --leaf-changes-only --impacted-interfaces A B`, `abidiff --harmless --redundant A B` and `abipkgdiff "
        "dirA dirB` (directories holding 5 libraries each, three of them changed and of exactly equal size; 2 / 4 / 3 / 8 worker "
        "threads with a perturbed schedule through the LIBABIGAIL_VERIF hooks) is run 4 times under different environments: ASLR on / off "
        "(setarch -R), MALLOC_PERTURB_ unset / 85 / 170, MALLOC_ARENA_MAX=1, working directory = case directory or /. "
        "Inputs are always named by the same absolute paths. Oracle: byte-identical stdout and equal exit status across the "
        "four runs. Non-trivial = output of at least 1 kB; distinct by SHA-1 of (case, command).")
ASSUMPTIONS = ["nondeterminism that does not depend on address-space layout, allocator fill pattern, arena count or cwd is not "
               "provoked by this check"]

ENVS = [({}, False, "case"), ({"MALLOC_PERTURB_": "85"}, True, "/"), ({"MALLOC_PERTURB_": "170", "MALLOC_ARENA_MAX": "1"}, False, "/"),
        ({"MALLOC_PERTURB_": "1"}, True, "case")]


@st.composite
def strategy_(draw, tier):
    c = draw(multi.multi_pair(tier, lo=1, hi=5))
    c["third"] = draw(S.library(lang="c", max_types=4, max_funcs=3))
    c["yield_seed"] = draw(st.integers(1, 10 ** 6))
    return c


def strategy(tier):
    return strategy_(tier)


def run_case(case, cx):
    m, m2, cfg = case["model"], case["mutant"], case["cfg"]
    d, b1, b2 = pairs.build_pair(cx, m, m2, cfg, nodebug_tus=tuple(case["nodebug"]), sonames=case.get("sonames"))
    # two package directories: libA (changed), libB (unchanged third library), libC (only in the first), libD and libE (same
    # content as libA: changed binaries of exactly equal size)
    try:
        p1, p2 = d + "/pkg1", d + "/pkg2"
        os.makedirs(p1), os.makedirs(p2)
        b3 = cbuild.compile_model(case["third"], cfg, d + "/third")
        for src, dst in ((b1, p1 + "/libA.so"), (b2, p2 + "/libA.so"), (b3, p1 + "/libB.so"), (b3, p2 + "/libB.so"), (b3, p1 + "/libC.so"),
                         (b1, p1 + "/libD.so"), (b2, p2 + "/libD.so"), (b1, p1 + "/libE.so"), (b2, p2 + "/libE.so")):
            os.link(src, dst)
    except cbuild.CompileError as e:
        raise Inconclusive(str(e))
    cmds = [("abidw", [b1]), ("abidw", ["--load-all-types", "--annotate", b2]), ("abidiff", ["--no-default-suppression", b1, b2]),
            ("abidiff", ["--no-default-suppression", "--leaf-changes-only", "--impacted-interfaces", b1, b2]),
            ("abidiff", ["--no-default-suppression", "--harmless", "--redundant", b1, b2]),
            ("abipkgdiff", ["--no-default-suppression", p1, p2])]
    cx.cls("lang=" + m["lang"], "cc=" + cfg["cc"])
    for tool, args in cmds:
        runs = []
        for env, noaslr, cwd in ENVS:
            if tool == "abipkgdiff":
                # the comparisons run on worker threads: also vary their number and perturb their schedule (hooks)
                env = dict(env, VERIF_NUM_WORKERS=str([2, 4, 3, 8][len(runs)]), VERIF_YIELD_SEED=str(case.get("yield_seed", 7) + len(runs)))
            r = cbuild.tool(tool, args, env=env, cwd=(d if cwd == "case" else "/"),
                            wrapper=(["setarch", "x86_64", "-R"] if noaslr else []))
            if r.timeout:
                raise Inconclusive("timeout")
            if cbuild.crashed(r):
                cx.violation("crash:%s:" % tool + cbuild.crash_key(r), r.brief())
                return
            runs.append(r)
        cx.evaluations += 1
        cx.cls("cmd=" + tool + " " + " ".join(a for a in args if a.startswith("--") and a != "--no-default-suppression"),
               "out>=1k=%s" % (len(runs[0].out) >= 1024))
        if len(runs[0].out) >= 1024:
            cx.nt({"case": M.sha(case), "cmd": [tool] + [a for a in args if a.startswith("--")]})
        for k, r in enumerate(runs[1:], 1):
            if r.rc != runs[0].rc or r.out != runs[0].out:
                import difflib
                dl = list(difflib.unified_diff(runs[0].text().split("\n"), r.text().split("\n"), lineterm="", n=1))[:40]
                cx.violation("nondeterministic-output:" + tool, {"cmd": [tool] + args, "env0": ENVS[0][0], "envk": ENVS[k][0],
                                                                 "rc0": runs[0].rc, "rck": r.rc, "diff": dl})
                return
    cx.sample({"changes": [i["kind"] for i in case["infos"]], "cfg": cfg, "commands": [[t] + [a for a in args if a.startswith("--")] for t, args in cmds]})
