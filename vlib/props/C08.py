"""C08 — exit status obeys the documented bit-field and agrees with the report."""
import os
from hypothesis import strategies as st
from ..gen import strategies as S, model as M, multi, suppr
from .. import cbuild, pairs
from ..oracle import report as R
from ..runner import Inconclusive

PID = "C08"
LEVEL = "exploration"
N = {"quick": 400, "thorough": 6000}
OPTSETS = [[], ["--leaf-changes-only"], ["--stat"], ["--harmless"], ["--redundant"], ["--non-reachable-types"],
           ["--deleted-fns"], ["--added-fns"], ["--changed-fns"], ["--deleted-vars"], ["--added-vars"], ["--changed-vars"],
           ["--no-added-syms"], ["--no-unreferenced-symbols"], ["--no-linkage-name"], ["--leaf-changes-only", "--stat"]]
BADCMD = [["--bogus-option"], [], ["{a}"], ["{a}", "{b}", "{a}"], ["{dir}", "{b}"], ["{a}", "/nonexistent/file"],
          ["--suppressions", "/nonexistent/s.suppr", "{a}", "{b}"], ["--", "{a}", "{b}"], ["--headers-dir1"],
          ["{a}", "{b}", "--suppressions"], ["--help"], ["{a}", "{txt}"], ["{txt}", "{b}"], ["--drop", "(", "{a}", "{b}"]]
RULE = ("(1) Pairs (A, B) differing by 0-5 changes of mixed kinds x 4 option sets drawn from default, --leaf-changes-only, "
        "--stat, --harmless, --redundant, --non-reachable-types, section-selecting options (--deleted-fns, --added-fns, "
        "--changed-fns, --deleted-vars, --added-vars, --changed-vars, --no-added-syms, --no-unreferenced-symbols), with "
        "(1/3) and without a generated suppression: the exit status must be a combination of the documented bits with "
        "8 => 4 and 2 => 1, and, when the error bit is clear, bit 4 must be set exactly when the parsed summary shows a "
        "non-zero net count on some line (or an ELF SONAME / architecture change line). (2) Malformed command lines for "
        "abidiff, abicompat and abipkgdiff (unknown option, missing operand, three operands, directory or text file as "
        "input, missing files, option without its argument): documented bits only, 8 => 4, 2 => 1. Non-trivial = a run whose "
        "summary is non-empty; distinct by SHA-1 of (case, option set).")
ASSUMPTIONS = ["summary lines are those emitted by emit_diff_stats, parsed by vlib/oracle/report.py"]


@st.composite
def strategy_(draw, tier):
    c = draw(multi.multi_pair(tier, lo=0, hi=5, symonly_pct=15))
    c["optsets"] = [S._pick(draw, OPTSETS) for _ in range(4)]
    c["suppr"] = suppr.targeting(draw, c["model"], c["mutant"], c["infos"]) if draw(st.integers(0, 2)) == 0 else None
    c["badcmd"] = [draw(st.integers(0, len(BADCMD) - 1)) for _ in range(2)]
    c["badtool"] = S._pick(draw, ["abidiff", "abicompat", "abipkgdiff"])
    return c


def strategy(tier):
    return strategy_(tier)


def run_case(case, cx):
    m, m2, cfg = case["model"], case["mutant"], case["cfg"]
    d, b1, b2 = pairs.build_pair(cx, m, m2, cfg, nodebug_tus=tuple(case["nodebug"]), sonames=case.get("sonames"))
    sup = []
    if case["suppr"]:
        sp = d + "/s.suppr"
        open(sp, "w").write(case["suppr"])
        sup = ["--suppressions", sp]
    kinds = [i["kind"] for i in case["infos"]]
    for opts in case["optsets"]:
        r = pairs.abidiff(cx, b1, b2, sup + opts)
        cx.evaluations += 1
        cx.cls("opts=" + (" ".join(opts) or "default"), "suppr=%s" % bool(sup))
        det = {"changes": kinds, "opts": sup + opts, "suppr": case["suppr"], "run": r.brief()}
        if cbuild.crashed(r):
            cx.violation("crash:" + cbuild.crash_key(r), r.brief())
            return
        if not R.status_bits_ok(r.rc):
            cx.violation("undocumented-status:%d" % r.rc, det)
            return
        if r.rc & R.STATUS_ERROR:
            cx.cls("error-status")
            continue
        rep = pairs.parse_or_oracle_error(cx, r)
        listed = rep.net_total() > 0 or rep.soname_changed or rep.arch_changed
        cx.cls("rc=%d" % r.rc)
        if rep.summary:
            cx.nt({"case": M.sha(case), "opts": opts})
        if bool(r.rc & R.STATUS_CHANGE) != bool(listed):
            cx.violation("change-bit-%s-but-summary-%s" % ("set" if r.rc & R.STATUS_CHANGE else "clear",
                                                            "lists-changes" if listed else "lists-none"), det)
            return
        cx.sample({"changes": kinds, "opts": sup + opts, "rc": r.rc, "summary": [l for l in r.text().split("\n") if "summary" in l]})
    # malformed command lines
    txt = d + "/notes.txt"
    open(txt, "w").write("this is not an ABI artifact\n")
    sub = {"{a}": b1, "{b}": b2, "{dir}": d, "{txt}": txt}
    for bi in case["badcmd"]:
        args = [sub.get(a, a) for a in BADCMD[bi]]
        tool = case["badtool"]
        r = cbuild.tool(tool, args, timeout=60)
        cx.evaluations += 1
        cx.cls("badcmd=%s:%d" % (tool, bi))
        if r.timeout:
            continue
        if cbuild.crashed(r):
            cx.violation("crash:%s:" % tool + cbuild.crash_key(r), r.brief())
            return
        if not R.status_bits_ok(r.rc):
            cx.violation("undocumented-status:%s:%d" % (tool, r.rc), r.brief())
            return
