"""C07 — documented harmless changes are filtered by default and shown with --harmless."""
from hypothesis import strategies as st
from ..gen import strategies as S, model as M, mutate as MU
from .. import cbuild, pairs
from ..oracle import report as R
from ..runner import Inconclusive

PID = "C07"
LEVEL = "exploration"
N = {"quick": 500, "thorough": 8000}
RULE = ("Pairs (P, H(P)): P a generated C/C++ library model, H exactly one mutation from the harmless catalog applied to a "
        "type or interface reachable from an exported interface: append an enumerator (enum size unchanged), add or drop a "
        "top-level const on a parameter, rename a typedef (same underlying type), and for C++ change a data member's access "
        "and add a non-virtual (inline) member function. Oracle: `abidiff` with default options exits 0; `abidiff "
        "--harmless` sets the ABI-change bit (and no error bit) and its report names an affected interface, the changed "
        "type or the new name. Non-trivial = the changed entity is not a direct parameter (reached through a pointer, "
        "member, typedef ...) or the mutation is C++-specific; distinct by SHA-1 of the case.")
ASSUMPTIONS = ["the five catalog entries are the ones doc/manuals/abidiff.rst / libabigail-concepts.rst class as harmless"]


@st.composite
def strategy_(draw, tier):
    big = tier == "thorough"
    lang = S._pick(draw, ["c", "cxx", "cxx"])
    m = draw(S.library(lang=lang, max_types=10 if big else 7, max_funcs=6, symfeatures=False))
    cfg = draw(S.build_config())
    m2, info = MU.harmless(draw, m)
    return {"model": m, "cfg": cfg, "mutant": m2, "info": info}


def strategy(tier):
    return strategy_(tier)


CYCLE = "harmless-change-reported-by-default:typedef_rename-in-own-cycle"


def typedef_reaches_itself(m, name):
    idx = M.type_index(m)
    return name in idx and name in M.reach_from_names(m, M.direct_deps(idx[name]))


def run_case(case, cx):
    m, m2, info, cfg = case["model"], case["mutant"], case["info"], case["cfg"]
    if m2 is None:
        cx.cls("no-applicable-mutation")
        return
    d, b1, b2 = pairs.build_pair(cx, m, m2, cfg)
    cx.cls("mut=" + info["kind"], "lang=" + m["lang"], "cc=" + cfg["cc"], "dwarf=%d" % cfg["dwarf"])
    r = pairs.abidiff(cx, b1, b2)
    h = pairs.abidiff(cx, b1, b2, ["--harmless"])
    if info["kind"] in ("member_access", "add_nonvirtual_method") or \
            (info.get("type") and MU.usage_depth(m, info["type"]) == "indirect"):
        cx.nt(case)
    cx.sample({"mutation": info, "cfg": cfg, "default_rc": r.rc, "harmless_rc": h.rc, "harmless_head": h.text()[:500]})
    det = {"mutation": info, "default": r.brief(), "harmless": h.brief(), "types.h(v1)": M.render_header(m),
           "types.h(v2)": M.render_header(m2)}
    for x in (r, h):
        if cbuild.crashed(x):
            cx.violation("crash:" + cbuild.crash_key(x), x.brief())
            return
    if r.rc != 0:
        if info["kind"] == "typedef_rename" and typedef_reaches_itself(m, info["type"]):
            # known finding: has_harmless_name_change() wants the two underlying types to compare equal, but when the
            # typedef's underlying type reaches the typedef itself (td1 = st0 (*)(st3*, st0), st3 { td1 *m1; }) they differ
            # by that very rename, the typedef_diff gets no category and is reported.  Outside such a cycle a reported
            # rename keeps its own key.
            cx.violation(CYCLE, det)
            return
        cx.violation("harmless-change-reported-by-default:" + info["kind"], det)
        return
    if info["kind"] == "param_cv" and not h.rc & R.STATUS_CHANGE and not h.rc & R.STATUS_ERROR:
        # compiler-level freedom, not libabigail's: clang leaves an unused by-value parameter of a non-trivially-copyable class
        # out of the DWARF altogether (see C16), so the qualifier change is in neither binary.  Decided with readelf: the
        # function's DIE has fewer formal parameters than the source.
        from ..oracle import elf
        f = next((x for x in m2["funcs"] if x["name"] == info["iface"]), None)
        recs = elf.dwarf_subprograms(b2).get(f.get("mangled", f["name"]) if f else "", []) if f else []
        if f is not None and recs and any(n != len(f["params"]) for n, var in recs):
            cx.cls("param_cv-on-parameter-the-compiler-dropped")
            raise Inconclusive("the compiler's DWARF does not have all parameters of %s" % info["iface"])
    if h.rc & R.STATUS_ERROR or not h.rc & R.STATUS_CHANGE:
        cx.violation("harmless-change-not-shown-with--harmless:" + info["kind"], det)
        return
    names = list(info.get("affected", [])) + [n for n in (info.get("type"), info.get("new_name"), info.get("iface")) if n]
    if not any(pairs.mentions([h.text()], n) for n in names):
        cx.violation("harmless-report-names-nothing-affected:" + info["kind"], det)
