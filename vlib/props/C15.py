"""C15 — recorded type layouts match the compiler's layouts."""
import os, re
from hypothesis import strategies as st
from ..gen import strategies as S, model as M
from .. import cbuild
from ..oracle import abixml
from ..runner import Inconclusive

PID = "C15"
LEVEL = "exploration"
N = {"quick": 400, "thorough": 8000}
RULE = ("Generated C/C++ libraries (structs, unions, classes with single/multiple/virtual bases and virtual functions, "
        "bit-fields, anonymous struct/union members, arrays, enums with 32/64-bit ranges, typedefs, template "
        "specialisations; 30% of the C cases define different types under the same tag in different translation units, each "
        "used by that unit's exported function) x gcc/clang x DWARF 4/5. Oracle: a probe program generated from the model and "
        "compiled with the same compiler and flags prints sizeof of every named type, offsetof of every named non-bit-field "
        "member (members of anonymous members included), the bit offset of every bit-field (found by storing all-ones into "
        "the field of a zeroed object and scanning for the first set bit) and the offset of every non-virtual base (pointer "
        "conversion). These numbers must equal size-in-bits / layout-offset-in-bits in abidw's output (expat reader; offsets of "
        "anonymous members are accumulated); same-named TU-private types are reached through the parameter type of their own "
        "unit's function. Non-trivial = a bit-field, an anonymous member, a base class or a same-name pair is present; "
        "distinct by SHA-1 of the case.")
ASSUMPTIONS = ["sizeof/offsetof of the probe (same compiler, same flags) are the compiler's layouts", "x86-64 little endian: the "
               "first set bit of an all-ones bit-field is its DW_AT_data_bit_offset"]


@st.composite
def strategy_(draw, tier):
    big = tier == "thorough"
    m = draw(S.library(lang=S._pick(draw, ["c", "cxx"]), max_types=12 if big else 8, max_funcs=6, max_vars=3, symfeatures=False,
                       tu_private=50))
    cfg = draw(S.build_config())
    return {"model": m, "cfg": cfg}


def strategy(tier):
    return strategy_(tier)


def flat_members(members, out=None):
    out = [] if out is None else out
    for mm in members:
        if "anon" in mm:
            flat_members(mm["members"], out)
        elif not mm.get("static"):
            out.append(mm)
    return out


def probe_source(m, tu=None):
    """Probe for the header types (tu=None) or for the TU-private types of translation unit `tu`."""
    cxx = m["lang"] == "cxx"
    out = ["#include <stdio.h>", "#include <string.h>", "#include <stddef.h>"]
    # (C++ probes are compiled with -fno-access-control: redefining private/protected would change which classes are
    # "POD for the purpose of layout" and therefore the layout of the classes derived from them)
    out.append('#include "types.h"')
    sel = []
    for t in m["types"]:
        w = t.get("where", "pub")
        if tu is None and not w.startswith("tu"):
            sel.append(t)
        elif tu is not None and w == "tu%d" % tu:
            out += M.render_typedef(m, t, cxx)
            sel.append(t)
    out.append("static int firstbit(const void *p, unsigned long n) { const unsigned char *b = (const unsigned char *) p; "
               "for (unsigned long i = 0; i < n; i++) for (int k = 0; k < 8; k++) if (b[i] & (1 << k)) return (int) (i * 8 + k); return -1; }")
    out.append("int main(void)\n{")
    for t in sel:
        k = t["kind"]
        if k == "opaque":
            continue
        nm = t.get("cname", t["name"])
        ty = M._tag(m, t["name"], cxx)
        out.append('  printf("S|%s|%%lu\\n", (unsigned long) sizeof(%s) * 8);' % (nm, ty))
        if k in ("struct", "union", "class"):
            for mm in flat_members(t["members"]):
                if mm.get("bits") is None:
                    out.append('  printf("O|%s|%s|%%lu\\n", (unsigned long) __builtin_offsetof(%s, %s) * 8);' % (nm, mm["name"], ty, mm["name"]))
                else:
                    # a raw, suitably aligned buffer instead of an object: no constructor / vtable is needed
                    out.append('  { static unsigned char buf[sizeof(%s)] __attribute__((aligned(64))); %s *o = (%s *) (void *) buf; '
                               'memset(buf, 0, sizeof buf); o->%s = -1; printf("B|%s|%s|%%d\\n", firstbit(buf, sizeof buf)); }'
                               % (ty, ty, ty, mm["name"], nm, mm["name"]))
            for b in t.get("bases", []):
                if not b.get("virtual"):
                    bt = M._tag(m, b["name"], cxx)
                    out.append('  { static unsigned char buf[sizeof(%s)] __attribute__((aligned(64))); %s *o = (%s *) (void *) buf; '
                               'printf("P|%s|%s|%%lu\\n", (unsigned long) ((char *) static_cast<%s *>(o) - (char *) o) * 8); }'
                               % (ty, ty, ty, nm, b["name"], bt))
    out.append("  return 0;\n}")
    return "\n".join(out) + "\n"


class Layouts:
    def __init__(self, doc):
        self.doc = doc

    def size_of(self, el, depth=0):
        if depth > 20 or el is None:
            return None
        if el.tag in ("class-decl", "union-decl", "type-decl", "pointer-type-def", "reference-type-def", "array-type-def"):
            s = el.attrib.get("size-in-bits")
            return int(s) if s and s.isdigit() else None
        if el.tag == "enum-decl":
            ut = [c for c in el if c.tag == "underlying-type"]
            return self.size_of(self.doc.type(ut[0].attrib["type-id"]), depth + 1) if ut else None
        if el.tag in ("typedef-decl", "qualified-type-def"):
            return self.size_of(self.doc.type(el.attrib["type-id"]), depth + 1)
        return None

    def members(self, el, base=0, out=None, depth=0):
        """{name: offset} for data members, flattening anonymous members."""
        out = {} if out is None else out
        for dm in el:
            if dm.tag != "data-member" or dm.attrib.get("static") == "yes":
                continue
            off = dm.attrib.get("layout-offset-in-bits")
            vd = [c for c in dm if c.tag == "var-decl"]
            if off is None and el.tag == "union-decl":
                off = "0"       # the members of a union carry no offset attribute: they all start at 0
            if off is None or not vd:
                continue
            name = vd[0].attrib.get("name", "")
            t = self.doc.type(vd[0].attrib.get("type-id"))
            if (not name or name.startswith("__anonymous_")) and t is not None and t.tag in ("class-decl", "union-decl") and depth < 6:
                self.members(t, base + int(off), out, depth + 1)
            else:
                out[name] = base + int(off)
        return out

    def bases(self, el):
        out = {}
        for b in el:
            if b.tag == "base-class" and b.attrib.get("is-virtual") != "yes":
                t = self.doc.type(b.attrib["type-id"])
                if t is not None and b.attrib.get("layout-offset-in-bits") is not None:
                    out[t.attrib.get("name")] = int(b.attrib["layout-offset-in-bits"])
        return out


def run_probe(cx, m, cfg, d, tu):
    cxx = m["lang"] == "cxx"
    cc = cbuild.CC[(cfg["cc"], m["lang"])]
    src = "probe%s.%s" % ("" if tu is None else tu, "cc" if cxx else "c")
    open(os.path.join(d, src), "w").write(probe_source(m, tu))
    exe = "probe%s" % ("" if tu is None else tu)
    rc, so, se = cbuild.sh([cc, cfg.get("opt", "-O0"), "-w", "-fPIC", "-std=gnu++14" if cxx else "-std=gnu11"] + (["-fno-access-control"] if cxx else []) + [src, "-o", exe], cwd=d)
    if rc:
        cx.cls("probe-compile-error")
        cx.extra["probe_compile_error:" + se.decode(errors="replace")[-120:]] += 0
        raise Inconclusive("probe: " + se.decode(errors="replace")[-400:])
    rc, so, se = cbuild.sh([os.path.join(d, exe)], cwd=d, timeout=20)
    if rc:
        raise Inconclusive("probe run failed")
    rec = {"S": {}, "O": {}, "B": {}, "P": {}}
    for l in so.decode().split("\n"):
        f = l.split("|")
        if f[0] == "S":
            rec["S"][f[1]] = int(f[2])
        elif f[0] in ("O", "B", "P"):
            rec[f[0]].setdefault(f[1], {})[f[2]] = int(f[3])
    return rec


def run_case(case, cx):
    m, cfg = case["model"], dict(case["cfg"])
    cxx = m["lang"] == "cxx"
    if cfg["cc"] == "clang":
        cfg["cflags"] = ["-fstandalone-debug"]
    elif cxx:
        cfg["cflags"] = ["-femit-class-debug-always"]
    d = cx.dir()
    try:
        b = cbuild.compile_model(m, cfg, d)
    except cbuild.CompileError as e:
        cx.cls("compile-error")
        raise Inconclusive(str(e))
    r = cbuild.tool("abidw", [b])
    if cbuild.crashed(r):
        cx.violation("crash:" + cbuild.crash_key(r), r.brief())
        return
    if r.rc != 0:
        raise Inconclusive("abidw rc=%d" % r.rc)
    try:
        doc = abixml.Doc(r.out)
    except abixml.Malformed:
        raise Inconclusive("malformed")
    L = Layouts(doc)
    pub = run_probe(cx, m, cfg, d, None)
    idx = M.type_index(m)
    privs = [t for t in m["types"] if t.get("where", "pub").startswith("tu")]
    feats = set()
    for t in m["types"]:
        if t["kind"] in ("struct", "union", "class"):
            if any(mm.get("bits") is not None for mm in flat_members(t["members"])):
                feats.add("bit-field")
            if any("anon" in mm for mm in t["members"]):
                feats.add("anonymous-member")
            if t.get("bases"):
                feats.add("base-class")
    if privs:
        feats.add("same-name-pair")
    cx.cls("lang=" + m["lang"], "cc=" + cfg["cc"], "dwarf=%d" % cfg["dwarf"])
    for f in feats:
        cx.cls("feature=" + f)
    if feats:
        cx.nt(case)
    det = {"cfg": cfg, "files": M.render_files(m)}
    nchk = [0]

    def compare(el, rec, cname, where):
        """el: the ABIXML element recorded for the type called cname; rec: the probe's numbers."""
        want = rec["S"].get(cname)
        got = L.size_of(el)
        if want is not None and got is not None:
            nchk[0] += 1
            if got != want:
                cx.violation("size-mismatch:" + el.tag, dict(det, type=cname, where=where, compiler_bits=want, recorded_bits=got))
                return False
        if el.tag in ("class-decl", "union-decl"):
            mem = L.members(el)
            for kind in ("O", "B"):
                for name, off in rec[kind].get(cname, {}).items():
                    if name not in mem:
                        cx.violation("member-not-recorded", dict(det, type=cname, where=where, member=name, recorded=sorted(mem)))
                        return False
                    nchk[0] += 1
                    if mem[name] != off:
                        cx.violation("%s-offset-mismatch" % ("member" if kind == "O" else "bit-field"),
                                     dict(det, type=cname, where=where, member=name, compiler_bits=off, recorded_bits=mem[name]))
                        return False
            bs = L.bases(el)
            for name, off in rec["P"].get(cname, {}).items():
                nm = [k for k in bs if k == name or (k or "").split("<")[0] == name.split("<")[0]]
                if not nm:
                    continue
                nchk[0] += 1
                if bs[nm[0]] != off:
                    cx.violation("base-class-offset-mismatch", dict(det, type=cname, where=where, base=name, compiler_bits=off,
                                                                    recorded_bits=bs[nm[0]]))
                    return False
        return True

    tagof = {"struct": "class-decl", "class": "class-decl", "union": "union-decl", "enum": "enum-decl", "typedef": "typedef-decl"}
    from ..oracle.typegraph import name_eq
    for t in m["types"]:
        if t.get("where", "pub").startswith("tu") or t["kind"] == "opaque":
            continue
        els = [e for e in doc.root.iter(tagof[t["kind"]]) if name_eq(e.attrib.get("name"), t["name"])
               and e.attrib.get("is-declaration-only") != "yes"]
        for e in els:
            if not compare(e, pub, t["name"], "header"):
                return
    # same-named TU-private types: reach each through its own translation unit's function
    fdecl = dict((e.attrib.get("name"), e) for e in doc.decls("function-decl") if e.attrib.get("elf-symbol-id"))
    probes = {}
    for t in privs:
        k = int(t["where"][2:])
        fn = "%sfn_tu%d" % (t["cname"], k)
        e = fdecl.get(fn)
        if e is None:
            continue
        ps = [p for p in e if p.tag == "parameter"]
        if not ps:
            continue
        el = doc.type(ps[0].attrib["type-id"])
        hops = 0
        while el is not None and el.tag in ("pointer-type-def", "qualified-type-def") and hops < 6:
            el = doc.type(el.attrib["type-id"])
            hops += 1
        if el is None or el.tag not in ("class-decl", "union-decl", "enum-decl") or el.attrib.get("is-declaration-only") == "yes":
            continue
        if k not in probes:
            probes[k] = run_probe(cx, m, cfg, d, k)
        if not compare(el, probes[k], t["cname"], "tu%d via %s" % (k, fn)):
            return
    cx.evaluations += nchk[0]
    cx.sample({"cfg": cfg, "numbers_compared": nchk[0], "features": sorted(feats), "sizes": dict(list(pub["S"].items())[:4])})
