"""C12 — presentation options never change the verdict."""
from hypothesis import strategies as st
from ..gen import strategies as S, model as M, multi
from .. import cbuild, pairs
from ..oracle import report as R
from ..runner import Inconclusive

PID = "C12"
LEVEL = "exploration"
N = {"quick": 400, "thorough": 6000}
POPTS = ["--no-show-locs", "--show-bytes", "--show-bits", "--show-hex", "--show-dec", "--no-linkage-name",
         "--no-show-relative-offset-changes", "--no-corpus-path", "--no-architecture"]
RULE = ("Pairs (A, B) differing by 1-5 changes of mixed kinds x three random subsets of the presentation options "
        "(--no-show-locs, --show-bytes/--show-bits, --show-hex/--show-dec, --no-linkage-name, "
        "--no-show-relative-offset-changes, --no-corpus-path, --no-architecture; both binaries are x86-64), in default, "
        "--leaf-changes-only, --harmless and --redundant modes; no suppression is in play. Oracle (differential against the "
        "run without presentation options): equal exit status and equal sets of removed, added and changed interfaces "
        "(pretty representation; the {linkage name} is ignored when --no-linkage-name is given). Non-trivial = the baseline "
        "report lists at least one interface and the subset has >= 2 options; distinct by SHA-1 of (case, subset).")
ASSUMPTIONS = ["interface identity is read from the [D]/[A]/[C] entry lines by vlib/oracle/report.py"]
KEYS = ["fn_removed", "fn_changed", "fn_added", "var_removed", "var_changed", "var_added",
        "fsym_removed", "fsym_added", "vsym_removed", "vsym_added"]


@st.composite
def strategy_(draw, tier):
    c = draw(multi.multi_pair(tier, lo=1, hi=5, symonly_pct=10))
    c["mode"] = S._pick(draw, [[], [], ["--leaf-changes-only"], ["--harmless"], ["--redundant"]])
    subs = []
    for _ in range(3):
        k = draw(st.integers(1, 5))
        sub = sorted(set(S._pick(draw, POPTS) for _ in range(k)))
        # --show-bytes/--show-bits and --show-hex/--show-dec are alternatives: keep the first of each pair
        if "--show-bytes" in sub and "--show-bits" in sub:
            sub.remove("--show-bits")
        if "--show-hex" in sub and "--show-dec" in sub:
            sub.remove("--show-dec")
        subs.append(sub)
    c["subsets"] = subs
    return c


def strategy(tier):
    return strategy_(tier)


def verdict(rep, nolink):
    out = {}
    for k in KEYS:
        names = rep.names(k)
        out[k] = sorted(set((n[0], None) if nolink else n for n in names), key=str)
    return out


def run_case(case, cx):
    m, m2, cfg = case["model"], case["mutant"], case["cfg"]
    d, b1, b2 = pairs.build_pair(cx, m, m2, cfg, nodebug_tus=tuple(case["nodebug"]), sonames=case.get("sonames"))
    base = pairs.abidiff(cx, b1, b2, case["mode"])
    if cbuild.crashed(base):
        cx.violation("crash:" + cbuild.crash_key(base), base.brief())
        return
    if base.rc & R.STATUS_ERROR:
        raise Inconclusive("error status")
    brep = pairs.parse_or_oracle_error(cx, base)
    listed = sum(len(brep.names(k)) for k in KEYS)
    cx.cls("mode=" + (" ".join(case["mode"]) or "default"), "lang=" + m["lang"], "baseline_listed=%d" % min(listed, 3))
    for sub in case["subsets"]:
        r = pairs.abidiff(cx, b1, b2, case["mode"] + sub)
        cx.evaluations += 1
        for o in sub:
            cx.cls("popt=" + o)
        if listed and len(sub) >= 2:
            cx.nt({"case": M.sha(case), "sub": sub})
        det = {"changes": [i["kind"] for i in case["infos"]], "mode": case["mode"], "subset": sub, "baseline": base.brief(),
               "with_options": r.brief()}
        if cbuild.crashed(r):
            cx.violation("crash:" + cbuild.crash_key(r), r.brief())
            return
        if r.rc != base.rc:
            cx.violation("exit-status-changed", det)
            return
        rep = pairs.parse_or_oracle_error(cx, r)
        nolink = "--no-linkage-name" in sub
        v0, v1 = verdict(brep, nolink), verdict(rep, nolink)
        if v0 != v1:
            bad = [k for k in KEYS if v0[k] != v1[k]]
            cx.violation("reported-interfaces-changed:" + bad[0], dict(det, baseline_set=v0[bad[0]], with_options_set=v1[bad[0]]))
            return
    cx.sample({"changes": [i["kind"] for i in case["infos"]], "mode": case["mode"], "subsets": case["subsets"], "rc": base.rc,
               "listed": listed})
