"""C23 — function and variable suppressions hide exactly what they name."""
import re, copy
from hypothesis import strategies as st
from ..gen import strategies as S, model as M, mutate as MU, multi, suppr
from .. import cbuild, pairs
from ..oracle import report as R
from ..runner import Inconclusive

PID = "C23"
LEVEL = "exploration"
N = {"quick": 500, "thorough": 8000}
RULE = ("Pairs of generated C libraries whose 3-8 changed / added / removed interfaces each owe their change to a private "
        "cause (their own signature over builtin types, their own addition or removal), so that redundancy filtering cannot "
        "couple report entries; one generated [suppress_function] / [suppress_variable] section targets one of them by "
        "name, name_regexp, symbol_name, symbol_name_regexp or (when unique) symbol_version, with a random change_kind. "
        "Oracle (exact expected delta against the run without suppression): when change_kind covers the target's kind of "
        "change, exactly the target's entry disappears, the net count of its summary column falls by one and its "
        "filtered-out count rises by one, every other entry (header and body text) and every other summary number is "
        "unchanged; otherwise the whole report is unchanged. Non-trivial = at least 3 reported interfaces and the target is "
        "not the first entry of its section; distinct by SHA-1 of the case.")
ASSUMPTIONS = ["C names equal symbol names; entries are identified by the [D]/[A]/[C] header line"]

SIG = [("param_type", 25), ("return_type", 20), ("add_param", 15), ("remove_param", 10), ("var_type", 30)]
CK_FN = {"changed": "function-subtype-change", "added": "added-function", "removed": "deleted-function"}
CK_VAR = {"changed": "variable-subtype-change", "added": "added-variable", "removed": "deleted-variable"}


@st.composite
def shared_cause(draw):
    """Second flavour: 3-6 functions with one and the same signature over struct S, and a change of S.  They share one
    canonical function-type diff node; with --redundant each of them is listed."""
    n = draw(st.integers(3, 6))
    sig = S._pick(draw, [[["p", ["n", "S"]]], [["n", "S"]], [["b", "int"], ["p", ["n", "S"]]], [["p", ["c", ["n", "S"]]], ["b", "char"]]])
    ret = S._pick(draw, [["b", "int"], ["void"], ["p", ["n", "S"]]])
    names = ["get_" + c for c in "abcdefgh"[:n]]
    m = {"lang": "c", "types": [{"kind": "struct", "name": "S", "members": [{"name": "x", "type": ["b", "int"], "bits": None},
                                                                                  {"name": "y", "type": ["b", "long"], "bits": None}]}],
         "funcs": [{"name": nm, "ret": ret, "params": [{"name": "p%d" % j, "type": t} for j, t in enumerate(sig)], "variadic": False,
                    "tu": draw(st.integers(0, 1)), "body": 1} for nm in names], "vars": [], "statics": []}
    m2 = copy.deepcopy(m)
    m2["types"][0]["members"].insert(draw(st.integers(0, 2)), {"name": "z", "type": ["b", S._pick(draw, ["char", "long", "double"])], "bits": None})
    target = S._pick(draw, names)
    return {"model": m, "cfg": draw(S.build_config()), "mutant": m2, "changes": dict((nm, "changed") for nm in names), "target": target,
            "how": S._pick(draw, ["name", "name_regexp", "symbol_name", "symbol_name_regexp"]),
            "ck": S._pick(draw, ["match", "all", "none", "other"]), "shared": True}


@st.composite
def strategy_(draw, tier):
    if draw(st.integers(0, 3)) == 0:
        return draw(shared_cause())
    # builtin-only signatures: every interface's change is its own
    m = draw(S.library(lang="c", max_types=1, min_funcs=4, max_funcs=9, max_vars=5, max_tus=2, symfeatures=False,
                       statics=False, kind_w=[("enum", 1)]))
    for t in m["types"]:
        t["name"] = "unused_" + t["name"]
    m = json_roundtrip_builtin_only(m)
    cfg = draw(S.build_config())
    cur = m
    changes = {}     # interface name -> kind of change
    for _ in range(draw(st.integers(3, 8))):
        what = S._weighted(draw, [("sig", 50), ("add", 25), ("remove", 25)])
        if what == "sig":
            m2, info = MU.breaking(draw, cur, only=[k for k, w in SIG])
            if m2 is None or info["iface"] in changes:
                continue
            changes[info["iface"]] = "changed"
        elif what == "add":
            m2, info = multi.add_interface(draw, cur)
            changes[info["added"][0]] = "added"
        else:
            m2, info = MU.breaking(draw, cur, only=["remove_fn", "remove_var"])
            if m2 is None or info["iface"] in changes:
                continue
            changes[info["iface"]] = "removed"
        cur = m2
    names = sorted(changes)
    target = S._pick(draw, names) if names else None
    how = S._pick(draw, ["name", "name_regexp", "symbol_name", "symbol_name_regexp", "symbol_version"])
    ck = S._pick(draw, ["match", "match", "all", "other", "none"])
    return {"model": m, "cfg": cfg, "mutant": cur, "changes": changes, "target": target, "how": how, "ck": ck}


def json_roundtrip_builtin_only(m):
    """Replace every use of a named type in signatures by int (the generated enum stays unused)."""
    def fix(t):
        k = t[0]
        if k == "n":
            return ["b", "int"]
        if k in ("p", "c", "v", "r"):
            return [k, fix(t[1])] + list(t[2:])
        if k == "a":
            return ["a", fix(t[1]), t[2]]
        if k == "fn":
            return ["fn", fix(t[1]), [fix(p) for p in t[2]], t[3]]
        return t
    m = copy.deepcopy(m)
    for f in m["funcs"]:
        f["ret"] = fix(f["ret"])
        for p in f["params"]:
            p["type"] = fix(p["type"])
    for v in m["vars"]:
        v["type"] = fix(v["type"])
    return m


def strategy(tier):
    return strategy_(tier)


def entries_of(rep):
    out = {}
    for key, sec in rep.sections.items():
        out[key] = [(e, tuple(b)) for e, b in zip(sec["entries"], sec["body"])]
    return out


def run_case(case, cx):
    m, m2, cfg, target = case["model"], case["mutant"], case["cfg"], case["target"]
    if not target:
        cx.cls("no-change")
        return
    kind = "fn" if any(f["name"] == target for f in m["funcs"] + m2["funcs"]) else "var"
    chg = case["changes"][target]
    vs_target = None
    if case["how"] == "symbol_version":
        # give the target a symbol version no other interface has
        m, m2 = copy.deepcopy(m), copy.deepcopy(m2)
        for mm in (m, m2):
            for k, i in M.interfaces(mm):
                if i["name"] == target:
                    i["version"] = "VERS_2"
        vs_target = "VERS_2"
    shared = case.get("shared", False)
    ropts = ["--redundant"] if shared else []
    d, b1, b2 = pairs.build_pair(cx, m, m2, cfg)
    base = pairs.abidiff(cx, b1, b2, ropts)
    if cbuild.crashed(base):
        cx.violation("crash:" + cbuild.crash_key(base), base.brief())
        return
    brep = pairs.parse_or_oracle_error(cx, base)
    col = {"fn": "fn_", "var": "var_"}[kind] + chg
    where = [k for k, ents in entries_of(brep).items() for e, b in ents if re.search(r"(?<![A-Za-z0-9_])%s(?![A-Za-z0-9_])" % re.escape(target), e)]
    if where != [col]:
        # the interface is not reported where the model expects it (e.g. a changed interface reported as removed+added):
        # not this property's business
        cx.cls("target-not-in-expected-section")
        raise Inconclusive("target entry not in %s: %r" % (col, where))
    cktab = CK_FN if kind == "fn" else CK_VAR
    if case["ck"] == "match":
        ckv = cktab[chg]
    elif case["ck"] == "all":
        ckv = "all"
    elif case["ck"] == "other":
        ckv = [v for k, v in sorted(cktab.items()) if k != chg][0]
    else:
        ckv = None
    covers = case["ck"] in ("match", "all", "none")
    rx = "^" + re.escape(target).replace("\\_", "_") + "$"
    prop = {"name": ("name", target), "name_regexp": ("name_regexp", rx), "symbol_name": ("symbol_name", target),
            "symbol_name_regexp": ("symbol_name_regexp", rx), "symbol_version": ("symbol_version", vs_target)}[case["how"]]
    props = [prop] + ([("change_kind", ckv)] if ckv else [])
    text = suppr.section("suppress_function" if kind == "fn" else "suppress_variable", props)
    sp = d + "/s.suppr"
    open(sp, "w").write(text)
    r = pairs.abidiff(cx, b1, b2, ropts + ["--suppressions", sp])
    if cbuild.crashed(r):
        cx.violation("crash:" + cbuild.crash_key(r), dict(r.brief(), suppr=text))
        return
    rep = pairs.parse_or_oracle_error(cx, r)
    nlisted = sum(len(v) for v in entries_of(brep).values())
    cx.cls("how=" + case["how"], "change_kind=" + str(ckv), "target=%s-%s" % (kind, chg), "covers=%s" % covers,
           "flavour=" + ("shared-cause" if shared else "private-cause"))
    pos = [e for e, b in entries_of(brep)[col]]
    first = re.search(r"(?<![A-Za-z0-9_])%s(?![A-Za-z0-9_])" % re.escape(target), pos[0]) is not None
    if nlisted >= 3 and not first:
        cx.nt(case)
    cx.sample({"suppr": text, "target": target, "kind": chg, "baseline_rc": base.rc, "rc": r.rc,
               "baseline_summary": [l for l in base.text().split("\n") if "summary" in l],
               "summary": [l for l in r.text().split("\n") if "summary" in l]})
    det = {"suppr": text, "target": target, "target_change": chg, "baseline": base.brief(), "with_suppr": r.brief()}
    if not covers:
        if r.out != base.out or r.rc != base.rc:
            cx.violation("change_kind-not-covering-still-changes-report", det)
        return
    be, ne = entries_of(brep), entries_of(rep)
    if shared:
        # with a shared cause the detailed explanation may move to another entry ("details were reported earlier"): the
        # entries are compared by their header lines only
        be = dict((k, [(e, ()) for e, b in v]) for k, v in be.items())
        ne = dict((k, [(e, ()) for e, b in v]) for k, v in ne.items())
    for key in set(be) | set(ne):
        old = be.get(key, [])
        new = ne.get(key, [])
        if key == col:
            exp = [x for x in old if not re.search(r"(?<![A-Za-z0-9_])%s(?![A-Za-z0-9_])" % re.escape(target), x[0])]
            if new != exp:
                if len(new) == len(old):
                    cx.violation("target-not-hidden:" + case["how"], det)
                else:
                    cx.violation("other-entries-changed-in-target-section", dict(det, expected=[e for e, b in exp], got=[e for e, b in new]))
                return
        elif new != old:
            cx.violation("other-section-changed:" + key, dict(det, expected=[e for e, b in old], got=[e for e, b in new]))
            return
    for key in set(brep.summary) | set(rep.summary):
        bn, bf = brep.summary.get(key, (0, 0))
        n, f = rep.summary.get(key, (0, 0))
        if key == col:
            if (n, f) != (bn - 1, bf + 1):
                cx.violation("summary-not-adjusted-by-one", dict(det, column=key, baseline=(bn, bf), got=(n, f)))
                return
        elif (n, f) != (bn, bf):
            cx.violation("other-summary-column-changed:" + key, dict(det, baseline=(bn, bf), got=(n, f)))
            return
