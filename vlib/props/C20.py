"""C20 — type canonicalization agrees with structural equality."""
import re
from hypothesis import strategies as st
from ..gen import strategies as S, model as M
from .. import cbuild
from ..runner import Inconclusive

PID = "C20"
LEVEL = "exploration"
VARIANTS = ["dbgtc"]
N = {"quick": 400, "thorough": 6000}
RULE = ("Generated C/C++ libraries biased to hard type graphs (self- and mutually recursive structs through pointers, "
        "anonymous members, opaque declarations, classes with bases / virtual functions / template specialisations, 50% of the "
        "C cases with different same-named types in different translation units) x gcc/clang x DWARF 4/5, analysed by abidw "
        "built with WITH_DEBUG_TYPE_CANONICALIZATION and WITH_DEBUG_SELF_COMPARISON. Oracle: `abidw --debug-tc B` (structural "
        "vs canonical comparison of every pair of types that is compared) and `abidw --debug-abidiff B` (every type read back "
        "from the emitted ABIXML must have the canonical type it had before) exit 0 and print none of the library's "
        "diagnostics. Each diagnostic is keyed by its message family and the kind of type it names (class, union, enum, "
        "typedef, pointer, qualified, array, function type, method type ...), so that the two families observed on every "
        "input of the unchanged tree do not hide a diagnostic about another kind of type. Non-trivial = a recursive type or "
        "two translation units sharing a type name; distinct by SHA-1 of the case.")
ASSUMPTIONS = ["the library's own debug checks are the oracle: they compare structural equality with canonical-type equality"]


@st.composite
def strategy_(draw, tier):
    big = tier == "thorough"
    m = draw(S.library(lang=S._pick(draw, ["c", "c", "cxx"]), min_types=2, max_types=12 if big else 8, max_funcs=6, max_vars=3,
                       symfeatures=False, tu_private=50))
    cfg = draw(S.build_config(kinds=("shared", "shared", "rel")))
    return {"model": m, "cfg": cfg}


def strategy(tier):
    return strategy_(tier)


def recursive(m):
    idx = M.type_index(m)
    for t in m["types"]:
        if t["kind"] in ("struct", "union", "class") and t["name"] in M.reach_from_names(m, [d for d in M.direct_deps(t)]):
            return True
    return False


def kind_of(desc):
    d = desc.strip()
    for k in ("function type", "method type", "class", "struct", "union", "enum", "typedef"):
        if d.startswith(k + " "):
            return k
    if d.endswith("*"):
        return "pointer"
    if d.endswith("&"):
        return "reference"
    if re.search(r"\[\d*\]$", d):
        return "array"
    if re.match(r"^(const|volatile|restrict) ", d):
        return "qualified"
    return "other"


def run_case(case, cx):
    m, cfg = case["model"], dict(case["cfg"])
    d = cx.dir()
    try:
        b = cbuild.compile_model(m, cfg, d)
    except cbuild.CompileError as e:
        cx.cls("compile-error")
        raise Inconclusive(str(e))
    cx.cls("lang=" + m["lang"], "cc=" + cfg["cc"], "dwarf=%d" % cfg["dwarf"])
    privs = any(t.get("where", "pub").startswith("tu") for t in m["types"])
    if recursive(m) or privs:
        cx.nt(case)
    keys = {}
    for opt in ("--debug-tc", "--debug-abidiff"):
        r = cbuild.tool("abidw", [opt, b], variant="dbgtc", timeout=300)
        cx.evaluations += 1
        if r.timeout:
            raise Inconclusive("timeout")
        if cbuild.crashed(r):
            key = cbuild.crash_key(r)
            keys.setdefault("%s:crash:%s" % (opt, key), r.brief())
            continue
        if r.rc != 0:
            keys.setdefault("%s:exit-status-%d" % (opt, r.rc), r.brief())
        for l in (r.etext() + "\n" + r.text()).split("\n"):
            mm = re.match(r"^error: wrong canonical type for '(.*)' / type:", l)
            if mm:
                keys.setdefault("wrong-canonical-type:" + kind_of(mm.group(1)), {"line": l, "cmd": r.brief()["cmd"]})
                continue
            if re.match(r"^error: no type with type-id: '.*' could be read back", l):
                keys.setdefault("no-type-with-type-id", {"line": l, "cmd": r.brief()["cmd"]})
                continue
            if re.search(r"structural.*canonical|canonical.*structural", l) or l.startswith("error:"):
                keys.setdefault("diagnostic:" + re.sub(r"0x[0-9a-f]+|'[^']*'|\d+", "_", l)[:80], {"line": l, "cmd": r.brief()["cmd"]})
    cx.sample({"cfg": cfg, "types.h": M.render_header(m)[:500], "diagnostic_keys": sorted(keys)})
    for k, det in sorted(keys.items()):
        cx.violation(k, dict(det, files=M.render_files(m)))
