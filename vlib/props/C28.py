"""C28 — kernel binaries expose exactly their ksymtab-exported interface."""
from hypothesis import strategies as st
from ..gen import strategies as S, model as M, kernel
from .. import cbuild
from ..oracle import abixml, elf
from ..runner import Inconclusive

PID = "C28"
LEVEL = "exploration"
N = {"quick": 400, "thorough": 6000}
RULE = ("Synthetic kernel-like binaries built from generated C libraries: a relocatable 'module' (.modinfo, "
        ".gnu.linkonce.this_module) or a static non-PIE 'vmlinux', in which a random subset E of the public functions and "
        "variables is exported the EXPORT_SYMBOL way (__ksymtab_strings section + a __ksymtab_<sym> entry each); hidden and "
        "static definitions are present too, among them static functions that bear the name of a global (possibly exported) "
        "function of another translation unit. Oracle: `abidw B` -> the declarations carrying an elf-symbol-id and the symbols of "
        "the symbol tables are exactly E; `abidw --no-linux-kernel-mode B` -> they are exactly the public defined symbols "
        "(readelf). Non-trivial = E is a proper, non-empty subset holding a function and a variable; distinct by SHA-1.")
ASSUMPTIONS = ["the synthetic objects are recognised as kernel binaries by the same section names the real ones carry"]
SYMTAB = "no-linux-kernel-mode-symbol-tables-list-only-ksymtab-symbols"


@st.composite
def strategy_(draw, tier):
    m = draw(S.library(lang="c", max_types=5, min_funcs=2, max_funcs=7, max_vars=4, max_tus=3, symfeatures=False))
    for k, i in M.interfaces(m)[1:]:
        if draw(st.integers(0, 9)) == 0:
            i["vis"] = "hidden"
    pub = [i["name"] for k, i in M.exported(m)]
    E = sorted(n for n in pub if draw(st.booleans()))
    if not E:
        E = pub[:1]      # without a single EXPORT_SYMBOL there is no __ksymtab_strings section: not a kernel binary
    shadows = []
    if M.ntus(m) >= 2:
        for k, i in M.exported(m):
            if k == "fn" and draw(st.integers(0, 3)) == 0:
                shadows.append([i["name"], draw(st.sampled_from([t for t in range(M.ntus(m)) if t != i["tu"]]))])
    return {"model": m, "cfg": draw(S.build_config()), "exported": E, "kind": S._pick(draw, ["module", "module", "vmlinux"]),
            "shadows": shadows}


def strategy(tier):
    return strategy_(tier)


def names(doc):
    decls = set(el.attrib["elf-symbol-id"] for el in doc.all_decls_with_symbol())
    syms = set(s["name"] for s in doc.fn_syms + doc.var_syms)
    return decls, syms


def run_case(case, cx):
    m, cfg, E, kind = case["model"], case["cfg"], set(case["exported"]), case["kind"]
    d = cx.dir()
    try:
        b = kernel.build_kernel_object(m, cfg, d, E, kind, [tuple(x) for x in case.get("shadows", [])])
    except cbuild.CompileError as e:
        cx.cls("compile-error")
        cx.extra["compile_error:" + str(e)[-100:]] += 0
        raise Inconclusive(str(e))
    pub = set(s.name for s in elf.public_defined(elf.relevant_table(b)) if not s.name.startswith(("__ksymtab", "__kstrtab", "verif_")))
    cx.cls("static-namesake-of-exported=%s" % any(n in E for n, t in case.get("shadows", [])))
    cx.cls("kind=" + kind, "cc=" + cfg["cc"], "exported=%d/%d" % (min(len(E), 5), min(len(pub), 8)))
    if E and E != pub and any(n.startswith("fn") for n in E) and any(n.startswith("var") for n in E):
        cx.nt(case)
    det = {"kind": kind, "exported": sorted(E), "public": sorted(pub), "cfg": cfg}
    for mode, opts, want in (("kernel-mode", [], E), ("no-linux-kernel-mode", ["--no-linux-kernel-mode"], pub)):
        r = cbuild.tool("abidw", opts + [b])
        cx.evaluations += 1
        if cbuild.crashed(r):
            cx.violation("crash:" + cbuild.crash_key(r), dict(r.brief(), **det))
            return
        if r.rc != 0:
            if not want:
                continue        # a binary without any exported interface is rejected
            if mode == "no-linux-kernel-mode" and not E and "Could not read ELF symbol information" in r.etext():
                # same root cause as the recorded finding: the symbol table reader keeps its ksymtab filter on, and with
                # nothing exported through ksymtab it reports that the binary has no symbols at all
                cx.violation(SYMTAB, dict(r.brief(), **det))
                continue
            cx.violation("abidw-failed:" + mode, dict(r.brief(), **det))
            return
        try:
            doc = abixml.Doc(r.out)
        except abixml.Malformed:
            raise Inconclusive("malformed")
        decls, syms = names(doc)
        if decls != want:
            cx.violation("declared-interface-differs:" + mode, dict(det, mode=mode, declared=sorted(decls), expected=sorted(want)))
            return
        if syms != want:
            if mode == "no-linux-kernel-mode" and syms == E and decls == pub:
                cx.violation(SYMTAB, dict(det, symbol_tables=sorted(syms)))
                continue
            cx.violation("symbol-tables-differ:" + mode, dict(det, mode=mode, symbol_tables=sorted(syms), expected=sorted(want)))
            return
    cx.sample(det)
