"""C41 — name and path helpers behave as specified."""
from .. import cxxprop

PID = "C41"
LEVEL = "exploration"
HARNESS = "c41_helpers"
SOURCES = ["c41_helpers.cc"]
RULE = ('rapidcheck over (a) pairs of well-formed qualified names (1-5 non-empty components: identifiers, template-ish text, __anonymous_{struct,union,enum}__N, near-miss prefixes) where the second name is independent or derived from the first by renumbering an anonymous component / replacing / dropping / adding a component: decl_names_equal symmetric, equal to string equality without anonymous parts, equal to a reference component-wise comparison; (b) split_string on strings of fields, blanks, tabs and delimiters vs a reference splitter (non-empty fields, leading white space removed); (c) string_begins_with/ends_with/suffix on (string, prefix-or-suffix-or-random) pairs incl. empty strings vs one-line definitions. Non-trivial: names differ and involve an anonymous or multi-component name; >=2 fields; both strings non-empty and different. Counted by the harness.')
ASSUMPTIONS = ['names with empty components (a::, ::a) are outside the domain: no caller produces them', 'white-space characters are never used as delimiters (split_string skips white space before looking for a delimiter)']
COUNTS = {'quick': 24000, 'thorough': 800000}


def jobs(tier, seed):
    n = COUNTS[tier]
    return [(["--random"], {"RC_PARAMS": "seed=%d max_success=%d max_size=100" % (seed * 100 + k + 1, n // 8)}) for k in range(8)]


def main(tier):
    import sys
    return cxxprop.run(PID, tier, sys.modules[__name__])


def run_case(case, cx):
    rc, out = cxxprop.replay(HARNESS, "plain", SOURCES, case["witness"])
    if rc != 0:
        hit = False
        for l in out.splitlines():
            if l.startswith("FAIL "):
                hit = True
                cx.violation(l[5:].strip(), {"witness": case["witness"], "output": out[-1500:]})
        if not hit:
            cx.violation("crash:signal", {"witness": case["witness"], "output": out[-1500:]})
