"""C43 — the debug-info format does not change the verdict."""
from hypothesis import strategies as st
from ..gen import strategies as S, model as M
from .. import cbuild, pairs
from ..runner import Inconclusive
from .C01 import nontrivial_model

PID = "C43"
LEVEL = "exploration"
N = {"quick": 500, "thorough": 8000}
DBG = [["-gdwarf-4"], ["-gdwarf-5"], ["-gno-column-info"], ["-gcolumn-info"], ["-fdebug-types-section"],
       ["-gdwarf-4", "-gno-column-info"], ["-gdwarf-5", "-gno-column-info"], ["-gdwarf-4", "-fdebug-types-section"],
       ["-gdwarf-5", "-fdebug-types-section"], ["-gstrict-dwarf"], ["-gdwarf-4", "-gstrict-dwarf"]]
RULE = ("Generated C/C++ library models compiled twice with the same compiler, optimisation level and code-generation flags "
        "but two different debug-info configurations drawn from {-gdwarf-4, -gdwarf-5, -gcolumn-info, -gno-column-info, "
        "-fdebug-types-section (type units; C++ and C), -gstrict-dwarf and combinations}; oracle: abidiff of the two binaries "
        "exits 0 with empty output in both argument orders. Non-trivial = an exported interface reaches an aggregate or enum "
        "and the two configurations differ in DWARF version or type-unit use; distinct by SHA-1 of the case.")
ASSUMPTIONS = ["debug-info options do not change code generation (same symbols, same layouts)"]
TU_KEY = "type-units-change-verdict"


@st.composite
def strategy_(draw, tier):
    big = tier == "thorough"
    m = draw(S.library(lang="any", max_types=10 if big else 7, max_funcs=6, symfeatures=True, tu_private=20, tdanon=20))
    cfg = draw(S.build_config())
    # type units are a known weak spot (see known_findings.json): kept to ~15% of the cases so that the search goes on
    pool = DBG if draw(st.integers(0, 99)) < 15 else [x for x in DBG if "-fdebug-types-section" not in x]
    a = draw(st.integers(0, len(pool) - 1))
    b = draw(st.integers(0, len(pool) - 2))
    if b >= a:
        b += 1
    return {"model": m, "cfg": cfg, "dbg1": pool[a], "dbg2": pool[b]}


def strategy(tier):
    return strategy_(tier)


def run_case(case, cx):
    m, cfg = case["model"], dict(case["cfg"])
    d = cx.dir()
    bins = []
    for tag, dbg in (("v1", case["dbg1"]), ("v2", case["dbg2"])):
        c = dict(cfg)
        # the DWARF version comes from the configuration under test
        ver = [f for f in dbg if f.startswith("-gdwarf-")]
        c["dwarf"] = int(ver[0][-1]) if ver else cfg["dwarf"]
        try:
            bins.append(cbuild.compile_model(m, c, d + "/" + tag, extra_cflags=[f for f in dbg if not f.startswith("-gdwarf-")]))
        except cbuild.CompileError as e:
            cx.cls("compile-error")
            raise Inconclusive(str(e))
    tu = ("-fdebug-types-section" in case["dbg1"]) != ("-fdebug-types-section" in case["dbg2"])
    anytu = "-fdebug-types-section" in case["dbg1"] + case["dbg2"]
    ver = [f for f in case["dbg1"] if f.startswith("-gdwarf")] != [f for f in case["dbg2"] if f.startswith("-gdwarf")]
    cx.cls("lang=" + m["lang"], "cc=" + cfg["cc"], "type-units-differ=%s" % tu, "version-differs=%s" % ver)
    for f in set(case["dbg1"] + case["dbg2"]):
        cx.cls("flag=" + f)
    if nontrivial_model(m) and (tu or ver):
        cx.nt(case)
    cx.sample({"dbg1": case["dbg1"], "dbg2": case["dbg2"], "cfg": cfg, "types.h": M.render_header(m)[:500]})
    for a, b, tag in ((bins[0], bins[1], "fwd"), (bins[1], bins[0], "rev")):
        r = pairs.abidiff(cx, a, b)
        if cbuild.crashed(r):
            cx.violation("crash:type-units" if anytu else "crash:" + cbuild.crash_key(r),
                         dict(r.brief(), dbg1=case["dbg1"], dbg2=case["dbg2"]))
            return
        if r.rc != 0 or r.out.strip():
            det = {"dbg1": case["dbg1"], "dbg2": case["dbg2"], "cfg": cfg, "order": tag, "run": r.brief(),
                   "files": M.render_files(m)}
            cx.violation("debug-format-changes-verdict" + (":type-units" if anytu else ""), det)
            return
