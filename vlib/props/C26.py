"""C26 — public-header filtering hides only private types."""
import copy
from hypothesis import strategies as st
from ..gen import strategies as S, model as M, mutate as MU
from .. import cbuild, pairs
from ..oracle import report as R
from ..runner import Inconclusive

PID = "C26"
LEVEL = "exploration"
N = {"quick": 500, "thorough": 8000}
RULE = ("Generated C libraries whose named types are split between a public header include/pub.h and a private header "
        "priv/priv.h (private structs/unions are only declared in the public header and only reached through pointers from "
        "public types and exported signatures); one layout mutation (member insertion, removal or type change) on a public or "
        "on a private struct. `abidiff --headers-dir1 v1/include --headers-dir2 v2/include` (and the same with "
        "--drop-private-types, and with --header-file1/2 naming pub.h): a mutation on a public type must set the ABI-change "
        "bit and name an affected interface; a mutation on a private type must be filtered (exit 0, no listed change); "
        "--drop-private-types must not change the verdict on public types. Control: without header options both kinds of "
        "mutation are reported. Non-trivial = control passed; both classes are generated at ~50%; distinct by SHA-1.")
ASSUMPTIONS = ["a type is public iff DW_AT_decl_file of its definition is under the given directory"]


PROP = "private-category-propagated-to-public-type-with-local-changes"


def byvalue_names(t, out):
    """Named types used by value (not under a pointer) in a type expression."""
    k = t[0]
    if k == "n":
        out.add(t[1])
    elif k in ("c", "v", "a"):
        byvalue_names(t[1], out)
    return out


@st.composite
def strategy_(draw, tier):
    m = draw(S.library(lang="c", min_types=3, max_types=9, min_funcs=2, max_funcs=6, symfeatures=False,
                       kind_w=[("struct", 60), ("union", 10), ("enum", 10), ("typedef", 15), ("opaque", 5)]))
    idx = M.type_index(m)
    # the set of types that can be private: structs/unions never used by value by an interface signature
    byval = set()
    for k, i in M.interfaces(m):
        for t in ([i["ret"]] + [p["type"] for p in i["params"]]) if k == "fn" else [i["type"]]:
            byvalue_names(t, byval)
    cand = [t["name"] for t in m["types"] if t["kind"] in ("struct", "union") and t["name"] not in byval]
    priv = set(n for n in cand if draw(st.integers(0, 2)) != 0)
    # closure: a public type may not embed a private one by value -> make the embedding type private too if it can be,
    # else make the embedded one public
    changed = True
    while changed:
        changed = False
        for t in m["types"]:
            if t["name"] in priv:
                continue
            used = set()
            if t["kind"] in ("struct", "union"):
                for mm in M._members_flat(t["members"]):
                    byvalue_names(mm["type"], used)
            elif t["kind"] == "typedef":
                byvalue_names(t["type"], used)
            for u in used & priv:
                priv.discard(u)
                changed = True
    for t in m["types"]:
        t["where"] = "priv" if t["name"] in priv else "pub"
    want_private = draw(st.booleans())
    reach = M.reachable_types(m)
    # a public type counts only if some exported interface reaches it through public types alone (a public type that is
    # only reachable through a private, i.e. opaque, type is not visible through the public headers either)
    mpub = copy.deepcopy(m)
    mpub["types"] = [t if t["name"] not in priv else {"kind": "opaque", "name": t["name"]} for t in mpub["types"]]
    reach_pub = M.reachable_types(mpub)
    npriv = [t["name"] for t in m["types"] if t["kind"] == "struct" and t["name"] in priv and t["name"] in reach]
    npub = [t["name"] for t in m["types"] if t["kind"] == "struct" and t["name"] not in priv and t["name"] in reach_pub]
    pstructs = [t["name"] for t in m["types"] if t["kind"] == "struct" and t["name"] in priv]
    if want_private and not npriv and pstructs:
        # give one private struct a way in: an exported function taking a pointer to it (the struct stays opaque for users)
        pn = S._pick(draw, pstructs)
        m["funcs"].append({"name": "fnp", "ret": ["b", "int"], "params": [{"name": "p0", "type": ["p", ["n", pn]]}],
                           "variadic": False, "tu": 0, "body": 1})
        npriv = [pn]
    if want_private and not npriv:
        want_private = False
    elif not want_private and not npub:
        want_private = True
    names = npriv if want_private else npub
    m2, info = (None, None)
    if names:
        m2, info = MU.breaking(draw, m, only=["insert_member", "remove_member", "member_type"], type_names=set(names))
    cfg = draw(S.build_config())
    m["pubhdr"] = S._pick(draw, ["pub.h", "pub.h", "api.v2.h", "pub.hpp", "lib-1.0.public.hxx", "x.h.h"])
    if m2 is not None:
        m2["pubhdr"] = m["pubhdr"]
    if info:
        info["affected_public"] = M.affected_by_type(mpub, info["type"])
    return {"model": m, "cfg": cfg, "mutant": m2, "info": info, "private": want_private}


def strategy(tier):
    return strategy_(tier)


def files_for(m):
    ext = ".c"
    pub = M.render_header(m, where="pub", guard="PUB_H")
    # the public header only *declares* the private structs/unions
    decls = "".join("%s %s;\n" % (t["kind"], t["name"]) for t in m["types"] if t.get("where") == "priv")
    pub = pub.replace("#define PUB_H\n", "#define PUB_H\n" + decls, 1)
    hn = m.get("pubhdr", "pub.h")
    files = {"include/" + hn: pub, "priv/priv.h": '#include "../include/%s"\n' % hn + M.render_header(m, where="priv", guard="PRIV_H")}
    for k in range(M.ntus(m)):
        files["tu%d%s" % (k, ext)] = M.render_tu(m, k, headers=("include/" + hn, "priv/priv.h"))
    return files


EMPTYLIST = "private-type-change-reported:interfaces-listed-with-every-change-beneath-them-filtered"


def listed_with_nothing_reportable(cx, m, m2, b1, b2, opts, r):
    """The recorded reporter defect (C13's 'default mode lists an interface whose changes are all filtered'): the private
    type's change itself is filtered and not printed, but the functions that reach it are still listed as changed, with an
    explanation that stops above the private type, and the exit status says 'changed'.  Recognised with the tool's own
    categorisation: the report has changed functions / variables only, and under none of them is there a node carrying a
    harmful category without SUPPRESSED / PRIVATE_TYPE."""
    import re
    try:
        rep = R.parse(r.text())
    except R.ParseError:
        return False
    if any(rep.names(k) for k in rep.sections if k not in ("fn_changed", "var_changed")) or rep.soname_changed:
        return False
    names = sorted(set(i["name"] for mm in (m, m2) for k, i in M.interfaces(mm)), key=len, reverse=True)
    listed = []
    for pretty, linkage in rep.names("fn_changed") + rep.names("var_changed"):
        listed.append(next((n for n in names if re.search(r"(?<![A-Za-z0-9_])" + re.escape(n) + r"(?![A-Za-z0-9_])", pretty)), None))
    if not listed or not all(listed):
        return False
    if all(pairs.subtree_has_nothing_reportable(cx, b1, b2, opts, n) for n in listed):
        return True
    # cyclic types (a redundant sibling stops the propagation of PRIVATE_TYPE_CATEGORY; other instances of the private type's
    # diff node are not categorised at all): decided on the report itself -- under the listed interfaces there is not one
    # statement of a change, only the path lines that lead towards the filtered private type
    body = r.text().split("\n\n", 1)[1] if "\n\n" in r.text() else ""
    for l in body.split("\n"):
        t = l.strip()
        if not t or t.endswith(":") or t == "type size hasn't changed" or "reported earlier" in t or "being reported" in t:
            continue
        return False
    return True


def run_case(case, cx):
    m, m2, info, cfg = case["model"], case["mutant"], case["info"], case["cfg"]
    if m2 is None:
        cx.cls("no-applicable-mutation")
        return
    d = cx.dir()
    try:
        b1 = cbuild.compile_model(m, cfg, d + "/v1", files=files_for(m))
        b2 = cbuild.compile_model(m2, cfg, d + "/v2", files=files_for(m2))
    except cbuild.CompileError as e:
        cx.cls("compile-error")
        cx.extra["compile_error:" + str(e)[-100:]] += 0
        raise Inconclusive(str(e))
    ctl = pairs.abidiff(cx, b1, b2)
    if cbuild.crashed(ctl):
        cx.violation("crash:" + cbuild.crash_key(ctl), ctl.brief())
        return
    private = case["private"]
    cx.cls("target=" + ("private" if private else "public"), "mut=" + info["kind"], "cc=" + cfg["cc"])
    if not ctl.rc & R.STATUS_CHANGE:
        cx.cls("control-silent")
        raise Inconclusive("control run reports nothing (C05's business)")
    cx.nt(case)
    hd = ["--headers-dir1", d + "/v1/include", "--headers-dir2", d + "/v2/include"]
    hn = m.get("pubhdr", "pub.h")
    hf = ["--header-file1", d + "/v1/include/" + hn, "--header-file2", d + "/v2/include/" + hn]
    cx.cls("header=" + hn)
    runs = {}
    opts_of = {"headers-dir": hd, "headers-dir+drop-private-types": hd + ["--drop-private-types"], "header-file": hf}
    for tag, opts in (("headers-dir", hd), ("headers-dir+drop-private-types", hd + ["--drop-private-types"]), ("header-file", hf)):
        r = pairs.abidiff(cx, b1, b2, opts)
        cx.evaluations += 1
        if cbuild.crashed(r):
            cx.violation("crash:" + cbuild.crash_key(r), r.brief())
            return
        runs[tag] = r
    cx.sample({"mutation": info, "target_private": private, "rcs": {k: v.rc for k, v in runs.items()},
               "public_header": hn, "content": files_for(m)["include/" + hn][:600]})
    det = {"mutation": info, "target_private": private, "files_v1": files_for(m), "control": ctl.brief()}
    for tag, r in runs.items():
        det2 = dict(det, mode=tag, run=r.brief())
        if private:
            if r.rc != 0 and listed_with_nothing_reportable(cx, m, m2, b1, b2, opts_of[tag], r):
                cx.violation(EMPTYLIST, det2)
                return
            if r.rc != 0:
                cx.violation("private-type-change-reported:" + tag, det2)
                return
        else:
            if r.rc & R.STATUS_ERROR or not r.rc & R.STATUS_CHANGE:
                # Recorded defect: PRIVATE_TYPE_CATEGORY is propagated from a private type's diff node to the diff node of
                # a public class that refers to it, even when that class has local changes of its own ("the IR doesn't
                # let us know about local vs children-carried changes", suppression_categorization_visitor::visit_end).
                # Recognised from the tool's own diff tree: the node of the mutated public type carries
                # PRIVATE_TYPE_CATEGORY, and so does the node of a type the model knows to be private below it.
                t = pairs.abidiff(cx, b1, b2, opts_of[tag] + ["--dump-diff-tree"])
                nodes = pairs.diff_tree(t.etext())
                tn = info["type"]
                privs = set(x["name"] for x in m["types"] if x.get("where") == "priv")
                hit = False
                for k, (ind, kind, subj, cats) in enumerate(nodes):
                    if kind == "class_diff" and subj.startswith("struct %s," % tn) and "PRIVATE_TYPE_CATEGORY" in cats:
                        end = next((j for j in range(k + 1, len(nodes)) if nodes[j][0] <= ind), len(nodes))
                        if any(n[1] in ("class_diff", "union_diff") and "PRIVATE_TYPE_CATEGORY" in n[3]
                               and n[2].split(",")[0].split(" ")[-1] in privs for n in nodes[k + 1:end]):
                            hit = True
                cx.violation(PROP if hit else "public-type-change-filtered:" + tag, det2)
                return
            if not any(pairs.mentions([r.text()], a) for a in info.get("affected_public", info["affected"])):
                cx.violation("public-type-change-names-no-affected-interface:" + tag, det2)
                return
    if not private and runs["headers-dir"].rc != runs["headers-dir+drop-private-types"].rc:
        cx.violation("drop-private-types-changes-verdict", dict(det, a=runs["headers-dir"].brief(), b=runs["headers-dir+drop-private-types"].brief()))
