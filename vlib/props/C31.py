"""C31 — parallel package comparison equals sequential comparison."""
import os, re
from hypothesis import strategies as st
from ..gen import strategies as S, model as M, multi
from .. import cbuild, pairs, build
from ..oracle import report as R
from ..runner import Inconclusive

PID = "C31"
LEVEL = "exploration"
VARIANTS = ["plain", "tsan"]
N = {"quick": 64, "thorough": 1200}
RULE = ("Pairs of package directories holding 6-20 generated shared libraries (unchanged, changed, removed, added) compared "
        "by abipkgdiff (built with the LIBABIGAIL_VERIF hooks) with VERIF_NUM_WORKERS in {1, 2, 3, 5, 8, 16} (three values per "
        "case) and a schedule perturbation seed (VERIF_YIELD_SEED: a pseudo-random 0-2 ms sleep or sched_yield before every "
        "mutex / condition-variable call of the worker queue). Oracle: standard output and exit status are identical to "
        "`abipkgdiff --no-parallel` on the same directories; and one further run of the same comparison under the "
        "ThreadSanitizer build must produce no ThreadSanitizer report. Real threads: only the interleavings the perturbation "
        "reaches are explored (the exhaustive part of the concurrency argument is C32's). Non-trivial = at least 8 libraries "
        "and at least one changed pair; distinct by SHA-1 of (case, workers, seed).")
ASSUMPTIONS = ["ThreadSanitizer sees libabigail and the tool only (elfutils, libxml2, libstdc++ are not instrumented)"]
WORKERS = [1, 2, 3, 5, 8, 16]


@st.composite
def strategy_(draw, tier):
    n = draw(st.integers(6, 20 if tier == "thorough" else 14))
    cfg = draw(S.build_config())
    libs = []
    for i in range(n):
        fate = S._weighted(draw, [("same", 40), ("changed", 40), ("removed", 10), ("added", 10)])
        m = draw(S.library(lang="c", max_types=3, min_funcs=1, max_funcs=3, max_vars=1, max_tus=1, symfeatures=False, statics=False))
        m2 = m
        if fate == "changed":
            m2, infos = multi.mutate_many(draw, m, 1, 2)
        libs.append({"name": "lib%02d.so" % i, "fate": fate, "model": m, "mutant": m2})
        if fate == "changed" and draw(st.integers(0, 2)) == 0:
            # one or two more binaries with the same content under other names: pairs of exactly equal size, whose relative
            # order in the report no size comparison can decide
            for j in range(draw(st.integers(1, 2))):
                libs.append({"name": "lib%02d%s.so" % (i, "xy"[j]), "fate": fate, "model": m, "mutant": m2})
    ws = sorted(set(S._pick(draw, WORKERS) for _ in range(3)))
    return {"libs": libs, "cfg": cfg, "workers": ws, "yield_seed": draw(st.integers(1, 10 ** 6))}


def strategy(tier):
    return strategy_(tier)


def run_case(case, cx):
    cfg = case["cfg"]
    d = cx.dir()
    p1, p2 = d + "/pkg1", d + "/pkg2"
    os.makedirs(p1 + "/usr/lib"), os.makedirs(p2 + "/usr/lib")
    try:
        for k, lib in enumerate(case["libs"]):
            if lib["fate"] != "added":
                os.link(cbuild.compile_model(lib["model"], cfg, d + "/b/%d/v1" % k), p1 + "/usr/lib/" + lib["name"])
            if lib["fate"] != "removed":
                os.link(cbuild.compile_model(lib["mutant"], cfg, d + "/b/%d/v2" % k), p2 + "/usr/lib/" + lib["name"])
    except cbuild.CompileError as e:
        cx.cls("compile-error")
        raise Inconclusive(str(e))
    opts = ["--no-default-suppression"]
    ref = cbuild.tool("abipkgdiff", opts + ["--no-parallel", p1, p2], timeout=600)
    if ref.timeout:
        raise Inconclusive("timeout")
    if cbuild.crashed(ref):
        cx.violation("crash:sequential:" + cbuild.crash_key(ref), ref.brief())
        return
    nlibs = len(case["libs"])
    changed = sum(1 for l in case["libs"] if l["fate"] == "changed")
    cx.cls("nlibs=%d+" % (nlibs // 4 * 4), "rc=%d" % ref.rc)
    for w in case["workers"]:
        env = {"VERIF_NUM_WORKERS": str(w), "VERIF_YIELD_SEED": str(case["yield_seed"])}
        r = cbuild.tool("abipkgdiff", opts + [p1, p2], env=env, timeout=600)
        cx.evaluations += 1
        cx.cls("workers=%d" % w)
        cx.cls("equal-size-changed-pairs=%s" % any(l["name"][-4] in "xy" for l in case["libs"]))
        if nlibs >= 8 and changed:
            cx.nt({"case": M.sha(case), "w": w})
        if r.timeout:
            cx.violation("hang:parallel", {"workers": w, "yield_seed": case["yield_seed"], "cmd": r.brief()["cmd"]})
            return
        if cbuild.crashed(r):
            cx.violation("crash:parallel:" + cbuild.crash_key(r), dict(r.brief(), workers=w))
            return
        if r.rc != ref.rc or r.out != ref.out:
            import difflib
            dl = list(difflib.unified_diff(ref.text().split("\n"), r.text().split("\n"), lineterm="", n=1))[:40]
            cx.violation("parallel-differs-from-sequential", {"workers": w, "yield_seed": case["yield_seed"], "rc_seq": ref.rc,
                                                              "rc_par": r.rc, "diff": dl})
            return
    # ThreadSanitizer tier
    w = case["workers"][-1] if case["workers"][-1] > 1 else 4
    env = {"VERIF_NUM_WORKERS": str(w), "VERIF_YIELD_SEED": str(case["yield_seed"] + 1)}
    t = cbuild.tool("abipkgdiff", opts + [p1, p2], variant="tsan", env=env, timeout=900)
    cx.evaluations += 1
    if t.timeout:
        cx.inconclusive += 1
    else:
        err = t.etext()
        if "WARNING: ThreadSanitizer" in err:
            m = re.search(r"WARNING: ThreadSanitizer: ([\w -]+)", err)
            fr = re.search(r"#\d+ (abigail::[^\s(]+|[\w:~]+) [^\n]*(/src/abg-|/tools/)", err)
            cx.violation("tsan:%s:%s" % (m.group(1).strip() if m else "?", fr.group(1) if fr else "?"),
                         {"workers": w, "stderr": err[:3000]})
            return
        if t.rc not in (ref.rc, 97) or (t.rc == ref.rc and t.out != ref.out):
            cx.violation("tsan-build-differs-from-sequential", {"workers": w, "rc": t.rc, "rc_seq": ref.rc})
            return
    cx.sample({"nlibs": nlibs, "fates": [l["fate"] for l in case["libs"]], "workers": case["workers"], "yield_seed": case["yield_seed"], "rc": ref.rc})
