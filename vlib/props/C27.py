"""C27 — whitelists and keep/drop patterns select exactly the named interfaces."""
import os, re, copy
from hypothesis import strategies as st
from ..gen import strategies as S, model as M, kernel, multi
from .. import cbuild, pairs, build, cxxprop
from ..oracle import abixml, elf, report as R
from ..runner import Inconclusive

PID = "C27"
LEVEL = "exploration"
N = {"quick": 300, "thorough": 5000}
RULE = ("(a) rapidcheck on regex::generate_from_strings: for random sets of strings over an alphabet rich in regular-expression "
        "metacharacters the generated pattern matches a probe exactly when the probe is in the set (probes: members, members "
        "with one character changed / appended / removed, random strings). (b) synthetic kernel modules (C28's generator) x a "
        "KMI whitelist holding a random subset of the exported symbol names plus non-exported names, absent names and names "
        "containing metacharacters (fn., f.*, ^fn0, fn0|fn1): `abidw --kmi-whitelist W B` declares exactly listed AND "
        "exported symbols; `abidiff --kmi-whitelist W B1 B2` reports exactly the changed/removed/added interfaces that are "
        "listed. (c) `abidiff --keep-fn/--drop-fn/--keep-var/--drop-var/--keep/--drop P A B` on generated pairs with patterns "
        "from a sub-language on which POSIX ERE and Python re agree (anchors, literals, '.', '*', alternation): every "
        "interface listed in the report is one the patterns keep, and every kept interface that the unfiltered report lists "
        "is still listed. Non-trivial = the whitelist / pattern keeps a proper, non-empty subset of the interfaces that "
        "changed; distinct by SHA-1 of the case.")
ASSUMPTIONS = ["C symbol names equal function / variable names", "the pattern sub-language means the same in POSIX ERE and Python re"]
LEAK = "dropped-interface-still-compared-as-bare-symbol"


@st.composite
def strategy_(draw, tier):
    flavour = S._pick(draw, ["whitelist", "keepdrop", "keepdrop"])
    if flavour == "whitelist":
        m = draw(S.library(lang="c", max_types=3, min_funcs=3, max_funcs=7, max_vars=3, max_tus=2, symfeatures=False, statics=False))
        pub = [i["name"] for k, i in M.exported(m)]
        E = sorted(n for n in pub if draw(st.integers(0, 3)) != 0) or pub[:1]
        m2, infos = multi.mutate_many(draw, m, 1, 4, kinds=[("breaking", 60), ("remove", 20), ("add", 20)])
        E2 = sorted(set(E) | set(a for i in infos for a in i.get("added", [])))
        wl = [n for n in pub if draw(st.booleans())]
        wl += [S._pick(draw, ["zzq_absent", "fn.", "f.*", "^fn0", "fn0|fn1", "var[0-9]", "fn0$", ".*"]) for _ in range(draw(st.integers(0, 3)))]
        wl += [a for i in infos for a in i.get("added", []) if draw(st.booleans())]
        if not wl:
            wl = ["zzq_absent"]     # (an empty whitelist section generates no suppression at all: not asserted)
        return {"flavour": flavour, "model": m, "mutant": m2, "infos": infos, "cfg": draw(S.build_config()), "E": E, "E2": E2,
                "wl": sorted(set(wl)), "section": S._pick(draw, ["abi_whitelist", "symbol_whitelist", "kernel_version_x86_64_whitelist"])}
    c = draw(multi.multi_pair(tier, lo=2, hi=6, nodebug=False, symfeatures=False, lang="c",
                              kinds=[("breaking", 50), ("remove", 25), ("add", 25)]))
    c["flavour"] = flavour
    pats = []
    for _ in range(draw(st.integers(1, 2))):
        how = S._pick(draw, ["exact", "prefix", "alt", "dot", "all-fn", "all-var"])
        names = [i["name"] for mm in (c["model"], c["mutant"]) for k, i in M.interfaces(mm)]
        n1, n2 = S._pick(draw, names), S._pick(draw, names)
        pats.append({"exact": "^%s$" % n1, "prefix": "^%s" % n1[:3], "alt": "^%s$|^%s$" % (n1, n2), "dot": "^%s.$" % n1[:-1],
                     "all-fn": "fn", "all-var": "var"}[how])
    c["opt"] = S._pick(draw, ["--keep-fn", "--drop-fn", "--keep-var", "--drop-var", "--keep", "--drop"])
    c["pats"] = pats
    return c


def strategy(tier):
    return strategy_(tier)


def iface_names(rep, m, m2):
    names = sorted(set(i["name"] for mm in (m, m2) for k, i in M.interfaces(mm)), key=len, reverse=True)
    out = {}
    for key in rep.sections:
        for pretty, linkage in rep.names(key):
            txt = (linkage or "") + " " + pretty
            hit = next((n for n in names if re.search(r"(?<![A-Za-z0-9_])" + re.escape(n) + r"(?![A-Za-z0-9_])", txt)), None)
            out.setdefault(hit or pretty, set()).add(key)
    return out


def run_case(case, cx):
    m, m2, cfg = case["model"], case["mutant"], case["cfg"]
    d = cx.dir()
    cx.cls("flavour=" + case["flavour"])
    if case["flavour"] == "whitelist":
        try:
            b1 = kernel.build_kernel_object(m, cfg, d + "/v1", set(case["E"]), "module")
            b2 = kernel.build_kernel_object(m2, cfg, d + "/v2", set(case["E2"]) & set(i["name"] for k, i in M.exported(m2)), "module")
        except cbuild.CompileError as e:
            cx.cls("compile-error")
            raise Inconclusive(str(e))
        wl = d + "/wl"
        open(wl, "w").write("[%s]\n" % case["section"] + "".join("  %s\n" % n for n in case["wl"]))
        r = cbuild.tool("abidw", ["--kmi-whitelist", wl, b1])
        cx.evaluations += 1
        if cbuild.crashed(r):
            cx.violation("crash:" + cbuild.crash_key(r), r.brief())
            return
        want = set(case["E"]) & set(case["wl"])
        det = {"whitelist": case["wl"], "exported": case["E"], "expected": sorted(want)}
        if want and want != set(case["E"]):
            cx.nt(case)
        if r.rc != 0:
            if not want:
                return
            cx.violation("abidw-failed-with-whitelist", dict(r.brief(), **det))
            return
        try:
            doc = abixml.Doc(r.out)
        except abixml.Malformed:
            raise Inconclusive("malformed")
        decls = set(el.attrib["elf-symbol-id"] for el in doc.all_decls_with_symbol())
        if decls != want:
            cx.violation("whitelist-selects-wrong-interfaces:abidw", dict(det, declared=sorted(decls)))
            return
        # abidiff with the whitelist: only listed interfaces may be reported
        x = pairs.abidiff(cx, b1, b2, ["--kmi-whitelist", wl])
        cx.evaluations += 1
        if cbuild.crashed(x):
            cx.violation("crash:" + cbuild.crash_key(x), x.brief())
            return
        if x.rc & R.STATUS_ERROR:
            return
        rep = pairs.parse_or_oracle_error(cx, x)
        listed = iface_names(rep, m, m2)
        bad = [n for n in listed if n not in case["wl"]]
        if bad:
            cx.violation("whitelist-selects-wrong-interfaces:abidiff", dict(det, reported_but_not_listed=bad, run=x.brief()))
            return
        cx.sample(dict(det, reported=sorted(listed)))
        return
    # keep / drop patterns
    try:
        b1 = cbuild.compile_model(m, cfg, d + "/v1")
        b2 = cbuild.compile_model(m2, cfg, d + "/v2")
    except cbuild.CompileError as e:
        cx.cls("compile-error")
        raise Inconclusive(str(e))
    base = pairs.abidiff(cx, b1, b2)
    opts = []
    for p in case["pats"]:
        opts += [case["opt"], p]
    r = pairs.abidiff(cx, b1, b2, opts)
    cx.evaluations += 1
    for x in (base, r):
        if cbuild.crashed(x):
            cx.violation("crash:" + cbuild.crash_key(x), x.brief())
            return
    if base.rc & R.STATUS_ERROR:
        raise Inconclusive("baseline error")
    cx.cls("opt=" + case["opt"])
    det = {"opt": case["opt"], "patterns": case["pats"], "baseline": base.brief(), "run": r.brief()}
    if r.rc & R.STATUS_ERROR:
        cx.violation("option-rejected:" + case["opt"], det)
        return
    brep = pairs.parse_or_oracle_error(cx, base)
    rep = pairs.parse_or_oracle_error(cx, r)
    kinds = dict((i["name"], k) for mm in (m, m2) for k, i in M.interfaces(mm))

    def kept(name):
        k = kinds.get(name)
        if k is None:
            return True
        applies = (k == "fn" and case["opt"] in ("--keep-fn", "--drop-fn", "--keep", "--drop")) or \
                  (k == "var" and case["opt"] in ("--keep-var", "--drop-var", "--keep", "--drop"))
        if not applies:
            return True
        hit = any(re.search(p, name) for p in case["pats"])
        return hit if "keep" in case["opt"] else not hit
    b_listed, listed = iface_names(brep, m, m2), iface_names(rep, m, m2)
    changed = set(b_listed)
    keepers = set(n for n in changed if kept(n))
    if keepers and keepers != changed:
        cx.nt(case)
    cx.sample({"opt": case["opt"], "patterns": case["pats"], "baseline_reported": sorted(changed), "kept": sorted(keepers),
               "reported": sorted(listed)})
    leak = False
    for n, secs in listed.items():
        if not kept(n):
            if secs <= {"fsym_removed", "fsym_added", "vsym_removed", "vsym_added"}:
                leak = True       # recorded defect: the dropped declaration's symbol comes back as a bare symbol
                continue
            cx.violation("dropped-interface-still-reported", dict(det, interface=n, sections=sorted(secs)))
            return
    for n in keepers:
        if n not in listed:
            cx.violation("kept-interface-no-longer-reported", dict(det, interface=n))
            return
    if leak:
        cx.violation(LEAK, det)


def main(tier):
    """Part (a) (rapidcheck harness cxx/c27_regex.cc), then parts (b)/(c) through the Hypothesis runner; one evidence file."""
    import sys, json, subprocess
    from .. import runner
    seedv = int(os.environ.get("VERIF_SEED", "1") or "1") or 1
    exe = build.ensure_harness("c27_regex", "plain", ["c27_regex.cc"], extra_ld=["-lrapidcheck"])
    out = os.path.join(build.BUILD, "run", "C27-regex.json")
    os.makedirs(os.path.dirname(out), exist_ok=True)
    env = dict(os.environ, RC_PARAMS="seed=%d max_success=%d max_size=60" % (seedv * 31 + 7, 3000 if tier == "quick" else 150000))
    r = subprocess.run([exe, "--random", "--out", out], stdout=subprocess.PIPE, stderr=subprocess.STDOUT, env=env, timeout=3600)
    rx = {}
    try:
        rx = json.load(open(out))
    except Exception:
        pass
    rc_a = 0
    if r.returncode != 0:
        txt = r.stdout.decode(errors="replace")
        mm = re.search(r"RANDOM-FAIL (\S+)", txt)
        d = os.path.join(build.BUILD, "replays", PID, "regex")
        os.makedirs(d, exist_ok=True)
        json.dump({"property": PID, "key": "generate_from_strings-wrong-pattern", "witness": mm.group(1) if mm else "", "detail": txt[-2000:],
                   "replay_cmd": "%s --replay %s" % (exe, mm.group(1) if mm else "")}, open(os.path.join(d, "case.json"), "w"), indent=1)
        print("VIOLATION property=%s replay=%s" % (PID, d))
        sys.stderr.write("[C27] generate_from_strings: %s\n" % txt[-1500:])
        rc_a = 1
    rc_b = runner.run(PID, tier)
    try:
        p = os.path.join(build.VERIF, "evidence", PID + ".json")
        ev = json.load(open(p))
        ev["coverage"]["regex_generate_from_strings"] = {"evaluations": rx.get("evaluations"), "nontrivial": rx.get("nontrivial"),
                                                         "classes": rx.get("classes"), "samples": (rx.get("samples") or [])[:2]}
        ev["coverage"]["evaluations"] += int(rx.get("evaluations") or 0)
        if rc_a:
            ev["violations"] = ev.get("violations", 0) + 1
        json.dump(ev, open(p, "w"), indent=1)
    except Exception as e:
        sys.stderr.write("[C27] could not merge the regex statistics: %s\n" % e)
    return 1 if (rc_a or rc_b == 1) else rc_b
