"""C17 — every exported symbol is accounted for exactly once."""
import re, copy, collections
from hypothesis import strategies as st
from ..gen import strategies as S, model as M
from .. import cbuild, pairs
from ..oracle import abixml, elf, report as R
from ..runner import Inconclusive

PID = "C17"
LEVEL = "exploration"
N = {"quick": 500, "thorough": 8000}
RULE = ("Generated C libraries (1-4 translation units, a random subset of them compiled without -g; aliases, weak symbols, "
        "hidden/protected visibility, static functions/variables, versioned symbols). Oracle A (abidw output, expat + "
        "readelf): every declaration that carries an elf-symbol-id refers to a public defined symbol listed in the symbol "
        "tables; every exported interface of a translation unit with debug info is referenced by exactly one declaration "
        "(directly or through a symbol of its alias group), no interface of a translation unit without debug info is, and no "
        "hidden or static definition is. Oracle B (the observable partition): the library is rebuilt without a random "
        "subset R of its interfaces; in `abidiff B B\\\\R` every removed name appears in exactly one [D] entry, in the Removed "
        "functions/variables section when its translation unit had debug info and in the 'symbols not referenced by debug "
        "info' section otherwise. Non-trivial = R holds interfaces of both kinds, or the library has an alias group; distinct "
        "by SHA-1 of the case.")
ASSUMPTIONS = ["gcc/clang emit a DW_TAG_subprogram / DW_TAG_variable for every external definition of a -g translation unit"]


@st.composite
def strategy_(draw, tier):
    big = tier == "thorough"
    m = draw(S.library(lang="c", max_types=5, min_funcs=3, max_funcs=9 if big else 7, max_vars=4, max_tus=4, symfeatures=True))
    cfg = draw(S.build_config())
    ntu = M.ntus(m)
    nd = sorted(set(k for k in range(ntu) if draw(st.integers(0, 2)) == 0))
    if len(nd) == ntu:
        nd = nd[1:]
    ifs = [i["name"] for k, i in M.exported(m)][1:]
    rem = sorted(set(n for n in ifs if draw(st.integers(0, 2)) == 0))
    return {"model": m, "cfg": cfg, "nodebug": nd, "remove": rem}


def strategy(tier):
    return strategy_(tier)


def word(n):
    return re.compile(r"(?<![A-Za-z0-9_@])" + re.escape(n) + r"(?![A-Za-z0-9_])")


def run_case(case, cx):
    m, cfg, nd, rem = case["model"], case["cfg"], case["nodebug"], case["remove"]
    m2 = copy.deepcopy(m)
    m2["funcs"] = [f for f in m2["funcs"] if f["name"] not in rem]
    m2["vars"] = [v for v in m2["vars"] if v["name"] not in rem]
    if M.ntus(m2) != M.ntus(m):
        # keep the translation-unit numbering (and therefore the -g / no -g assignment) identical
        m2.setdefault("statics", []).append({"name": "keep_tu", "type": ["b", "int"], "tu": M.ntus(m) - 1, "static": True})
    d, b1, b2 = pairs.build_pair(cx, m, m2, cfg, full_debug=False, nodebug_tus=tuple(nd))
    r = cbuild.tool("abidw", [b1])
    if cbuild.crashed(r):
        cx.violation("crash:" + cbuild.crash_key(r), r.brief())
        return
    if r.rc != 0:
        raise Inconclusive("abidw rc=%d" % r.rc)
    try:
        doc = abixml.Doc(r.out)
    except abixml.Malformed:
        raise Inconclusive("malformed xml")
    pub = set(elf.elf_id(s) for s in elf.public_defined(elf.relevant_table(b1)))
    sids = doc.symbol_ids()
    refs = collections.Counter(el.attrib["elf-symbol-id"] for el in doc.all_decls_with_symbol())
    exported = dict((i["name"], (k, i)) for k, i in M.exported(m))
    has_alias = any(i.get("aliases") for k, i in M.exported(m))
    kinds_removed = set("debug" if exported[n][1]["tu"] not in nd else "nodebug" for n in rem)
    cx.cls("ntu=%d" % M.ntus(m), "nodebug_tus=%d" % len(nd), "removed=%d" % min(len(rem), 4), "alias=%s" % has_alias, "cc=" + cfg["cc"])
    if len(kinds_removed) == 2 or has_alias:
        cx.nt(case)
    det = {"nodebug_tus": nd, "removed": rem, "cfg": cfg, "files": M.render_files(m)}
    # ---- oracle A
    for sid, n in refs.items():
        if sid not in sids:
            cx.violation("decl-references-symbol-not-in-tables", dict(det, symbol=sid))
            return
        if sid.replace("@@", "@") not in set(p.replace("@@", "@") for p in pub):
            cx.violation("decl-attached-to-non-public-symbol", dict(det, symbol=sid))
            return
    base = collections.Counter()
    for sid, n in refs.items():
        base[sid.split("@")[0]] += n
    for name, (k, i) in exported.items():
        group = [name] + [a["name"] for a in i.get("aliases", [])]
        n = sum(base[g] for g in group)
        if i["tu"] in nd:
            if n:
                cx.violation("interface-without-debug-info-has-declaration", dict(det, interface=name, count=n))
                return
        elif n != 1:
            cx.violation("interface-with-debug-info-attached-%s" % ("never" if n == 0 else "more-than-once"),
                         dict(det, interface=name, count=n, abixml_head=r.text()[:1500]))
            return
    for k, i in M.interfaces(m):
        if i.get("vis") == "hidden" and base[i["name"]]:
            cx.violation("hidden-definition-attached-to-symbol", dict(det, interface=i["name"]))
            return
    for s_ in m.get("statics", []):
        if base[s_["name"]]:
            cx.violation("static-definition-attached-to-symbol", dict(det, interface=s_["name"]))
            return
    cx.sample({"nodebug_tus": nd, "removed": rem, "n_decls_with_symbol": sum(refs.values()), "n_public_symbols": len(pub)})
    # ---- oracle B
    if not rem:
        return
    x = pairs.abidiff(cx, b1, b2)
    cx.evaluations += 1
    if cbuild.crashed(x):
        cx.violation("crash:" + cbuild.crash_key(x), x.brief())
        return
    if x.rc & R.STATUS_ERROR:
        raise Inconclusive("abidiff error")
    rep = pairs.parse_or_oracle_error(cx, x)
    det["abidiff"] = x.brief()
    dbg_entries = pairs.entries(rep, "fn_removed", "var_removed")
    sym_entries = pairs.entries(rep, "fsym_removed", "vsym_removed")
    for name in rem:
        k, i = exported[name]
        rx = word(name)
        nd_ = sum(1 for e in dbg_entries if rx.search(e))
        # each alias is an ELF symbol of its own and gets its own entry ("fn2_al0, aliases fn2"): a symbol is *listed* by
        # the entry whose leading name it is, the "aliases ..." tail only mentions it
        ns_ = sum(1 for e in sym_entries if e.split(",")[0].strip().split("@")[0] == name)
        want_dbg = i["tu"] not in nd
        if nd_ + ns_ == 0:
            cx.violation("removed-symbol-in-no-section", dict(det, interface=name))
            return
        if nd_ + ns_ > 1:
            cx.violation("removed-symbol-listed-more-than-once", dict(det, interface=name, debug_sections=nd_, symbol_sections=ns_))
            return
        if want_dbg and not nd_:
            cx.violation("removed-interface-with-debug-info-listed-as-bare-symbol", dict(det, interface=name))
            return
        if not want_dbg and not ns_:
            cx.violation("removed-interface-without-debug-info-listed-as-declaration", dict(det, interface=name))
            return
