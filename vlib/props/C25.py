"""C25 — loading and applying any suppression file never crashes."""
import os, glob, shutil
from .. import build, cbuild, fuzzprop

PID = "C25"
HARNESS = "fuzz_suppr"
SOURCES = ["fuzz_suppr.cc"]
MAX_LEN = 4096
DICT = "suppr.dict"
SECONDS = {"quick": 60, "thorough": 1200}
RULE = ("libFuzzer (in-process, ASan + UBSan, 14 forked jobs from a seed corpus + 2 from an empty corpus) on bytes -> "
        "suppr::read_suppressions(istream) and, for the same bytes, tools_utils::gen_suppr_spec_from_kernel_abi_whitelists; the "
        "resulting suppressions are applied late (compute_diff + has_net_changes + report, default and leaf reporters, on three "
        "pre-loaded corpus pairs: C structs/enums/typedefs with symbol aliases and versions, a C++ library with classes, a pair "
        "without debug info) and early (a small ELF is re-read with the suppressions in a fresh environment, exercising the "
        "drop paths). Grammar-aware custom mutator: property lines inserted / replaced from the property names of "
        "abg-suppression.cc, values from a pool holding valid names of the corpora, regular expressions, invalid regular "
        "expressions, huge numbers, offset_of()/offset_after() calls, lists and nested tuples, unbalanced braces, escapes, "
        "valueless properties, section headers (also malformed). Seeds: tests/data/test-diff-suppr/*.suppr and "
        "tests/data/test-kmi-whitelist/*. Oracle: no sanitizer report, no abort, no assertion at an unlisted site, no "
        "reproducible hang. distinct non-trivial = corpus units at exit, capped by the executions that produced at least one "
        "suppression.")
ASSUMPTIONS = ["regcomp/regexec of glibc are not instrumented"]

PROGS = {
    "p0": ("c", "struct st0 { int m0; char m1; struct st0 *n; }; union un0 { int a; float b; }; enum en0 { E0, E1 = 7 }; typedef struct st0 td0;\n"
                "int fn0(td0 *p, enum en0 e) { return 0; } int fn0_al(td0 *p, enum en0 e) __attribute__((alias(\"fn0\")));\n"
                "union un0 fn1(void) { union un0 u = {0}; return u; } long var0; struct st0 var1; __attribute__((weak)) int fn2(int a, ...) { return a; }\n",
           "struct st0 { int m0; long ins; char m1; struct st0 *n; }; union un0 { int a; double b; }; enum en0 { E0, E1 = 8, E2 }; typedef struct st0 td0;\n"
           "int fn0(td0 *p, enum en0 e) { return 0; } int fn0_al(td0 *p, enum en0 e) __attribute__((alias(\"fn0\")));\n"
           "union un0 fn1(void) { union un0 u = {0}; return u; } int var0; struct st0 var1; int fn3(void) { return 1; }\n"),
    "p1": ("cxx", "struct B { virtual ~B(); int b; }; B::~B() {} class D : public B { public: int d; void m(); private: char p; }; void D::m() {}\n"
                  "namespace ns { struct S { D d; }; int f(S &s) { return 0; } } int g(const D *d) { return 0; }\n",
           "struct B { virtual ~B(); virtual void nv(); int b; }; B::~B() {} void B::nv() {} class D : public B { public: long d; void m(); protected: char p; }; void D::m() {}\n"
           "namespace ns { struct S { D d; int x; }; int f(S &s) { return 0; } } int g(const D *d, int) { return 0; }\n"),
    "p2": ("c-nodebug", "int fn0(void) { return 0; } int fn1(void) { return 1; } int var0; int var1;\n",
           "int fn0(void) { return 0; } int fn9(void) { return 1; } int var0; long var7;\n"),
}


def make_data(d):
    os.makedirs(d, exist_ok=True)
    for name, (lang, v1, v2) in PROGS.items():
        for tag, src in (("v1", v1), ("v2", v2)):
            ext = "cc" if lang == "cxx" else "c"
            f = "%s_%s.%s" % (name, tag, ext)
            open(os.path.join(d, f), "w").write(src)
            cc = "g++" if lang == "cxx" else "gcc"
            g = [] if lang == "c-nodebug" else ["-g"]
            rc, so, se = cbuild.sh([cc] + g + ["-shared", "-fPIC", "-w", f, "-o", "%s_%s.so" % (name, tag)], cwd=d)
            if rc:
                raise build.BuildError("fuzz data: " + se.decode(errors="replace"))


def make_seeds(dst, tier, seedv):
    n = 0
    repo = build.REPO
    for f in sorted(glob.glob(os.path.join(repo, "tests/data/test-diff-suppr/*.suppr")))[:60] + \
            sorted(glob.glob(os.path.join(repo, "tests/data/test-kmi-whitelist/*"))):
        if os.path.isfile(f) and os.path.getsize(f) < 4000:
            shutil.copy(f, os.path.join(dst, os.path.basename(f)))
            n += 1
    open(os.path.join(dst, "own1.suppr"), "w").write("[suppress_type]\n  name = st0\n  type_kind = struct\n  has_data_member_inserted_between = {0, end}\n\n"
                                                     "[suppress_function]\n  name_regexp = ^fn\n  change_kind = added-function\n  symbol_version = VERS_1\n  parameter = '0 td0*\n\n"
                                                     "[suppress_variable]\n  symbol_name = var0\n  drop = yes\n")
    open(os.path.join(dst, "own2.wl"), "w").write("[abi_whitelist]\n  fn0\n  var0\n  fn9\n")
    return n + 2


def prepare_env():
    data = os.path.join(build.BUILD, "fuzzdata", "C25")
    make_data(data)
    os.environ["VERIF_FUZZ_DATA"] = data


def main(tier):
    prepare_env()
    return fuzzprop.run(PID, tier, __import__("vlib.props.C25", fromlist=["x"]))
