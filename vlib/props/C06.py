"""C06 — ABI-neutral source edits are never reported."""
from hypothesis import strategies as st
from ..gen import strategies as S, model as M, mutate as MU
from .. import cbuild, pairs
from ..runner import Inconclusive

PID = "C06"
LEVEL = "exploration"
N = {"quick": 800, "thorough": 16000}
RULE = ("Pairs (P, N(P)): P a generated C/C++ library model, N a composition of 1-4 rewrites from the neutral catalog "
        "(function bodies, parameter renames, definition order, moving an interface to another translation unit, blank "
        "lines shifting every source line, adding/removing static functions and variables, adding unused types, comments); "
        "same compiler and flags; abidiff in both argument orders must exit 0 with empty output. Non-trivial = the rewrite "
        "moves an interface to another TU or shifts lines or reorders definitions; distinct by SHA-1 of the case.")
ASSUMPTIONS = ["the catalog entries are ABI-neutral by construction of the C/C++ language (no exported declaration changes)"]


@st.composite
def strategy_(draw, tier):
    big = tier == "thorough"
    m = draw(S.library(lang="any", max_types=10 if big else 7, max_funcs=6, symfeatures=True, tu_private=30))
    cfg = draw(S.build_config(kinds=("shared", "shared", "rel")))
    m2, info = MU.neutral(draw, m)
    return {"model": m, "cfg": cfg, "mutant": m2, "info": info}


def strategy(tier):
    return strategy_(tier)


def run_case(case, cx):
    m, m2, info, cfg = case["model"], case["mutant"], case["info"], case["cfg"]
    d, b1, b2 = pairs.build_pair(cx, m, m2, cfg, full_debug=False)
    cx.cls(*["rw=" + k for k in set(info["kinds"])])
    cx.cls("lang=" + m["lang"], "cc=" + cfg["cc"], "dwarf=%d" % cfg["dwarf"], "kind=" + cfg["kind"])
    if set(info["kinds"]) & {"move_tu", "blank_lines", "reverse_defs", "link_order"}:
        cx.nt(case)
    for a, b, tag in ((b1, b2, "fwd"), (b2, b1, "rev")):
        r = pairs.abidiff(cx, a, b)
        if tag == "fwd":
            cx.sample({"rewrites": info["kinds"], "cfg": cfg, "rc": r.rc, "types.h": M.render_header(m)[:500]})
        if cbuild.crashed(r):
            cx.violation("crash:" + cbuild.crash_key(r), r.brief())
            return
        if r.rc != 0 or r.out.strip():
            cx.violation("neutral-edit-reported", {"rewrites": info["kinds"], "order": tag, "run": r.brief(),
                                                   "v1": M.render_files(m), "v2": M.render_files(m2)})
            return
