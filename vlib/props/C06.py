"""C06 — ABI-neutral source edits are never reported."""
from hypothesis import strategies as st
from ..gen import strategies as S, model as M, mutate as MU
from .. import cbuild, pairs
from ..runner import Inconclusive

PID = "C06"
LEVEL = "exploration"
N = {"quick": 800, "thorough": 16000}
RULE = ("Pairs (P, N(P)): P a generated C/C++ library model, N a composition of 1-4 rewrites from the neutral catalog "
        "(function bodies, parameter renames, definition order, moving an interface to another translation unit, blank "
        "lines shifting every source line, adding/removing static functions and variables, adding unused types, comments; a "
        "quarter of the libraries have `typedef struct {...} X;` / `typedef struct {...} X, Xb;` types); "
        "same compiler and flags; abidiff in both argument orders must exit 0 with empty output. Non-trivial = the rewrite "
        "moves an interface to another TU or shifts lines or reorders definitions; distinct by SHA-1 of the case.")
ASSUMPTIONS = ["the catalog entries are ABI-neutral by construction of the C/C++ language (no exported declaration changes)"]


TWONAMES = "neutral-edit-reported:anonymous-struct-with-two-naming-typedefs"


def two_naming_typedefs_only(m, text):
    """The recorded defect: `typedef struct { ... } X, Xb;` -- the DWARF reader names the anonymous struct after whichever of
    its typedefs it meets first, so moving / reordering the functions that use X and Xb renames the struct.  Recognised when
    the model has such a type, the report says nothing but "type name changed from 'X' to 'Xb'" (either direction) under
    changed functions / variables, and nothing is added, removed or resized."""
    import re
    pairs_ = [(t["name"], a) for t in m["types"] if t.get("tdanon") for a in t.get("tdnames", [])]
    if not pairs_:
        return False
    if not re.search(r"Functions changes summary: 0 Removed, \d+ Changed(?: \(\d+ filtered out\))?, 0 Added", text) or \
            not re.search(r"Variables changes summary: 0 Removed, \d+ Changed(?: \(\d+ filtered out\))?, 0 Added", text):
        return False
    renames = re.findall(r"type name changed from '([^']*)' to '([^']*)'", text)
    if not renames or any((a, b) not in pairs_ and (b, a) not in pairs_ for a, b in renames):
        return False
    # a union's change is also shown as its flat representation before / after: the two may differ in the name only
    for a, b in re.findall(r"type changed from:\n\s*(.*)\n\s*to:\n\s*(.*)", text):
        if not any(re.sub(r"\b%s\b" % re.escape(x), y, a) == b or re.sub(r"\b%s\b" % re.escape(y), x, a) == b for x, y in pairs_):
            return False
    deny = ("type size changed", "insertion", "deletion", "offset changed", "enumerator", "alignment changed",
            "size changed from", "entity changed from")
    return not any(x in text for x in deny)


@st.composite
def strategy_(draw, tier):
    big = tier == "thorough"
    m = draw(S.library(lang="any", max_types=10 if big else 7, max_funcs=6, symfeatures=True, tu_private=30, tdanon=25, named_inline=20))
    cfg = draw(S.build_config(kinds=("shared", "shared", "rel")))
    m2, info = MU.neutral(draw, m)
    return {"model": m, "cfg": cfg, "mutant": m2, "info": info}


def strategy(tier):
    return strategy_(tier)


def run_case(case, cx):
    m, m2, info, cfg = case["model"], case["mutant"], case["info"], case["cfg"]
    d, b1, b2 = pairs.build_pair(cx, m, m2, cfg, full_debug=False)
    cx.cls(*["rw=" + k for k in set(info["kinds"])])
    cx.cls("lang=" + m["lang"], "cc=" + cfg["cc"], "dwarf=%d" % cfg["dwarf"], "kind=" + cfg["kind"])
    cx.cls("named-inline-hosts=%d" % len([t for t in m["types"] if any("vname" in mm for mm in t.get("members", []))]))
    if set(info["kinds"]) & {"move_tu", "blank_lines", "reverse_defs", "link_order"}:
        cx.nt(case)
    for a, b, tag in ((b1, b2, "fwd"), (b2, b1, "rev")):
        r = pairs.abidiff(cx, a, b)
        if tag == "fwd":
            cx.sample({"rewrites": info["kinds"], "cfg": cfg, "rc": r.rc, "types.h": M.render_header(m)[:500]})
        if cbuild.crashed(r):
            cx.violation("crash:" + cbuild.crash_key(r), r.brief())
            return
        if r.rc == 0 and r.out.strip() and "filtered out" in r.text() and any(t.get("tdnames") for t in m["types"]):
            # the same rename, categorised harmless (HARMLESS_DECL_NAME_CHANGE under a union ...): nothing is listed but the
            # summary line counts filtered changes; look at what was filtered
            h = pairs.abidiff(cx, a, b, ["--harmless"])
            if not cbuild.crashed(h) and two_naming_typedefs_only(m, h.text()):
                cx.violation(TWONAMES, {"rewrites": info["kinds"], "order": tag, "run": r.brief(), "harmless": h.brief()})
                return
        if (r.rc != 0 or r.out.strip()) and two_naming_typedefs_only(m, r.text()):
            cx.violation(TWONAMES, {"rewrites": info["kinds"], "order": tag, "run": r.brief(), "types.h": M.render_header(m)})
            return
        if r.rc != 0 or r.out.strip():
            cx.violation("neutral-edit-reported", {"rewrites": info["kinds"], "order": tag, "run": r.brief(),
                                                   "v1": M.render_files(m), "v2": M.render_files(m2)})
            return
