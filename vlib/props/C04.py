"""C04 — emitted ABIXML is well-formed and self-contained."""
import os
from hypothesis import strategies as st
from ..gen import strategies as S, model as M
from .. import cbuild
from ..oracle import abixml
from ..runner import Inconclusive

PID = "C04"
LEVEL = "exploration"
N = {"quick": 640, "thorough": 12000}
META = ["<", ">", "&", "'", '"', " ", "é", "ü", "]]>", "&amp;", "<!--"]
RULE = ("Generated C/C++ library models (aliases, versions, weak/hidden symbols, TU-private same-name types) plus metacharacter "
        "injection: exported symbols renamed with objcopy --redefine-sym on the objects before linking, SONAME via -Wl,-soname, "
        "and the source/compilation directory named with < > & ' \" blanks and non-ASCII (valid UTF-8) text. Oracle (independent "
        "expat-based parser): abidw's output is well-formed XML; every type-id / naming-typedef-id / def-of-decl-id / "
        "method-class-id reference resolves to an id defined exactly once; every elf-symbol-id and alias names a symbol listed "
        "in the symbol tables; renamed symbol names and the SONAME decode back to what was injected. Non-trivial = a "
        "metacharacter reaches an attribute or the document defines >= 20 type ids; distinct by SHA-1 of the case.")
ASSUMPTIONS = ["xml.etree/expat decides well-formedness", "objcopy --redefine-sym produces the requested names"]


@st.composite
def strategy_(draw, tier):
    big = tier == "thorough"
    m = draw(S.library(lang="any", max_types=14 if big else 9, max_funcs=6, symfeatures=True, tu_private=30))
    cfg = draw(S.build_config(kinds=("shared",)))
    inj = {"rename": {}, "soname": None, "dir": None}
    mode = draw(st.integers(0, 3))
    if mode >= 1:
        # rename some exported, unversioned, alias-free C symbols
        cands = [i["name"] for k, i in M.exported(m) if not i.get("version") and not i.get("aliases")
                 and (m["lang"] == "c" or k == "var")]
        for n in cands:
            if draw(st.integers(0, 2)) == 0:
                piece = "".join(S._pick(draw, META + ["x", "_"]) for _ in range(draw(st.integers(1, 3))))
                inj["rename"][n] = n + piece
        if draw(st.booleans()):
            inj["soname"] = "lib" + "".join(S._pick(draw, META + ["a"]) for _ in range(draw(st.integers(1, 3)))) + ".so.1"
        if draw(st.booleans()):
            inj["dir"] = "src" + "".join(S._pick(draw, [x for x in META if "/" not in x] + ["d"]) for _ in range(draw(st.integers(1, 3))))
    return {"model": m, "cfg": cfg, "inj": inj}


def strategy(tier):
    return strategy_(tier)


def run_case(case, cx):
    m, cfg, inj = case["model"], case["cfg"], case["inj"]
    d = cx.dir()
    if inj["dir"]:
        d = os.path.join(d, inj["dir"])
    files = M.render_files(m)
    cbuild.write_files(d, files)
    cc = cbuild.CC[(cfg["cc"], m["lang"])]
    ext = ".cc" if m["lang"] == "cxx" else ".c"
    objs = []
    for s in sorted(f for f in files if f.endswith(ext)):
        o = s[:-len(ext)] + ".o"
        rc, so, se = cbuild.sh([cc, "-gdwarf-%d" % cfg["dwarf"], cfg["opt"], "-w", "-fPIC", "-c", s, "-o", o], cwd=d)
        if rc:
            cx.cls("compile-error")
            raise Inconclusive(se.decode(errors="replace")[-500:])
        for old, new in inj["rename"].items():
            rc, so, se = cbuild.sh(["objcopy", "--redefine-sym", "%s=%s" % (old, new), o], cwd=d)
            if rc:
                raise Inconclusive("objcopy: " + se.decode(errors="replace")[-300:])
        objs.append(o)
    ld = ["-shared"]
    vs = M.version_script(m)
    if vs:
        open(os.path.join(d, "vers.map"), "w").write(vs)
        ld.append("-Wl,--version-script=vers.map")
    if inj["soname"]:
        ld.append("-Wl,-soname=" + inj["soname"])
    rc, so, se = cbuild.sh([cc] + ld + objs + ["-o", "lib.so"], cwd=d)
    if rc:
        cx.cls("link-error")
        raise Inconclusive(se.decode(errors="replace")[-500:])
    b = os.path.join(d, "lib.so")
    r = cbuild.tool("abidw", [b])
    if cbuild.crashed(r):
        cx.violation("crash:" + cbuild.crash_key(r), r.brief())
        return
    if r.rc != 0:
        cx.violation("abidw-failed", r.brief())
        return
    injected = bool(inj["rename"] or inj["soname"] or inj["dir"])
    cx.cls("lang=" + m["lang"], "injected=%s" % injected, "rename=%d" % min(len(inj["rename"]), 3),
           "soname=%s" % bool(inj["soname"]), "dir=%s" % bool(inj["dir"]))
    det = {"inj": inj, "cmd": "abidw " + b}
    try:
        doc = abixml.Doc(r.out)
    except abixml.Malformed as e:
        where = "symbol-name" if inj["rename"] else ("soname" if inj["soname"] else ("path" if inj["dir"] else "plain"))
        det["error"] = str(e)
        det["head"] = r.text()[:1500]
        cx.nt(case)
        cx.violation("malformed-xml:" + where, det)
        return
    if injected or len(doc.ids) >= 20:
        cx.nt(case)
    cx.sample({"inj": inj, "n_type_ids": len(doc.ids), "n_syms": len(doc.fn_syms) + len(doc.var_syms)})
    dang = doc.dangling_type_refs()
    if dang:
        det["dangling"] = dang[:5]
        cx.violation("dangling-type-reference", det)
        return
    # the statement is about the type ids the document *references*: each must be defined exactly once.  (abidw repeats
    # the inline <subrange ... id='X'/> child in every array that shares the subrange; nothing refers to that id.)
    referenced = set(v for a, v, el in doc.refs)
    dup = {i: els for i, els in doc.duplicate_ids().items() if i in referenced}
    if dup:
        det["duplicates"] = {k: [e.tag for e in v] for k, v in list(dup.items())[:5]}
        cx.violation("type-id-defined-twice", det)
        return
    sids = doc.symbol_ids()
    names = set(s["name"] for s in doc.fn_syms + doc.var_syms)
    for el in doc.all_decls_with_symbol():
        if el.attrib["elf-symbol-id"] not in sids:
            det["decl"] = dict(el.attrib)
            det["symbol_ids"] = sorted(sids)[:30]
            cx.violation("decl-references-unlisted-symbol", det)
            return
    for s in doc.fn_syms + doc.var_syms:
        for al in [a for a in s.get("alias", "").split(",") if a]:
            base = al.split("@")[0]
            if al not in sids and base not in names:
                det["alias"] = al
                cx.violation("alias-references-unlisted-symbol", det)
                return
    for old, new in inj["rename"].items():
        if new not in names:
            det["missing"] = new
            det["names"] = sorted(names)[:30]
            cx.violation("injected-symbol-name-not-recovered", det)
            return
    if inj["soname"] and doc.root.attrib.get("soname") != inj["soname"]:
        det["soname_in_doc"] = doc.root.attrib.get("soname")
        cx.violation("injected-soname-not-recovered", det)
