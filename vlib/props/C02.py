"""C02 — ABIXML serialization preserves the ABI."""
from hypothesis import strategies as st
from ..gen import strategies as S, model as M
from .. import cbuild
from ..runner import Inconclusive
from .C01 import nontrivial_model

PID = "C02"
LEVEL = "exploration"
N = {"quick": 640, "thorough": 12000}
WOPTS = [["--no-show-locs"], ["--no-parameter-names"], ["--no-write-default-sizes"], ["--type-id-style", "hash"],
         ["--no-corpus-path"], ["--annotate"], ["--load-all-types"]]
RULE = ("Generated C/C++ library models x compiler x DWARF version x binary kind x random subset of the information-preserving "
        "abidw options; oracle: `abidiff B abidw(B)` and `abidiff abidw(B) B` exit 0 with empty stdout, and `abidw --abidiff "
        "<same options> B` exits 0. Non-trivial = an exported interface reaches an aggregate/enum and at least one writer option "
        "is in use; distinct by SHA-1 of (model, config, options).")
ASSUMPTIONS = ["system compilers emit correct DWARF", "tools rebuilt from /repo's working tree"]


@st.composite
def strategy_(draw, tier):
    big = tier == "thorough"
    m = draw(S.library(lang="any", max_types=12 if big else 8, max_funcs=8 if big else 6, symfeatures=True, tu_private=30, tdanon=20))
    cfg = draw(S.build_config(kinds=("shared", "shared", "rel", "pie")))
    k = draw(st.integers(0, 3))
    idx = sorted(set(draw(st.integers(0, len(WOPTS) - 1)) for _ in range(k)))
    opts = sum((WOPTS[i] for i in idx), [])
    return {"model": m, "cfg": cfg, "wopts": opts}


def strategy(tier):
    return strategy_(tier)


def run_case(case, cx):
    m, cfg, wopts = case["model"], case["cfg"], case["wopts"]
    d = cx.dir()
    try:
        b = cbuild.compile_model(m, cfg, d)
    except cbuild.CompileError as e:
        cx.cls("compile-error")
        raise Inconclusive(str(e))
    cx.cls("lang=" + m["lang"], "cc=" + cfg["cc"], "dwarf=%d" % cfg["dwarf"], "kind=" + cfg["kind"],
           "nwopts=%d" % len([o for o in wopts if o.startswith("--")]))
    for o in wopts:
        if o.startswith("--"):
            cx.cls("wopt=" + o)
    r = cbuild.tool("abidw", wopts + [b])
    if cbuild.crashed(r):
        cx.violation("crash:" + cbuild.crash_key(r), r.brief())
        return
    if r.rc != 0:
        cx.violation("abidw-failed", r.brief())
        return
    x = d + "/lib.abi"
    open(x, "wb").write(r.out)
    if nontrivial_model(m) and wopts:
        cx.nt(case)
    cx.sample({"wopts": wopts, "cfg": cfg, "types.h": M.render_header(m)[:600], "abixml_bytes": len(r.out)})
    for a1, a2, tag in ((b, x, "elf-xml"), (x, b, "xml-elf")):
        r2 = cbuild.tool("abidiff", ["--no-default-suppression", a1, a2])
        if r2.timeout:
            raise Inconclusive("timeout")
        if cbuild.crashed(r2):
            cx.violation("crash:" + cbuild.crash_key(r2), r2.brief())
            return
        if r2.rc != 0 or r2.out.strip():
            cx.violation("abixml-differs-from-binary", {"order": tag, "wopts": wopts, "run": r2.brief(),
                                                       "files": M.render_files(m)})
            return
    r3 = cbuild.tool("abidw", ["--abidiff"] + wopts + [b])
    if cbuild.crashed(r3):
        cx.violation("crash:" + cbuild.crash_key(r3), r3.brief())
    elif r3.rc != 0:
        cx.violation("abidw--abidiff-failed", {"wopts": wopts, "run": r3.brief(), "files": M.render_files(m)})
