"""C03 — re-serializing ABIXML (abilint) is a byte-exact fixpoint."""
import re
from hypothesis import strategies as st
from ..gen import strategies as S, model as M
from .. import cbuild
from ..runner import Inconclusive
from . import C02

PID = "C03"
FORMAT_OPTS = ["--annotate", "--no-write-default-sizes", "--type-id-style"]
LEVEL = "exploration"
N = {"quick": 640, "thorough": 12000}
RULE = ("abidw documents for generated C/C++ library models (as C02: compilers, DWARF versions, binary kinds, abidw option "
        "subsets); oracle: `abilint doc` reproduces doc byte for byte and `abilint --diff doc` exits 0. 80% of the models are "
        "'void-free' (no function returns void, no void pointers) so that the strict comparison keeps searching behind the known "
        "void type-decl relocation. Non-trivial = document has a class/union/enum and >= 2 translation units; distinct by SHA-1 "
        "of the case.")
ASSUMPTIONS = ["a difference is attributed to the known finding only if moving the single <type-decl name='void'> element and "
               "renumbering type ids makes both documents identical"]


def _devoid(t):
    k = t[0]
    if k == "void":
        return ["b", "int"]
    if k in ("p", "r", "c", "v"):
        return [k, _devoid(t[1])]
    if k == "a":
        return ["a", _devoid(t[1]), t[2]]
    if k == "fn":
        return ["fn", _devoid(t[1]), [_devoid(p) for p in t[2]], t[3]]
    return t


def devoid_model(m):
    for t in m["types"]:
        if t["kind"] in ("struct", "union", "class"):
            for mm in M._members_flat(t["members"]):
                mm["type"] = _devoid(mm["type"])
        elif t["kind"] == "typedef":
            t["type"] = _devoid(t["type"])
    for f in m["funcs"] + [s for s in m.get("statics", []) if "params" in s]:
        f["ret"] = _devoid(f["ret"])
        for p in f["params"]:
            p["type"] = _devoid(p["type"])
    for v in m["vars"] + [s for s in m.get("statics", []) if "params" not in s]:
        v["type"] = _devoid(v["type"])
    return m


@st.composite
def strategy_(draw, tier):
    c = draw(C02.strategy_(tier))
    c["void_free"] = draw(st.integers(0, 4)) != 0
    if c["void_free"]:
        devoid_model(c["model"])
    return c


def strategy(tier):
    return strategy_(tier)


def normalize_void(doc):
    """Remove the <type-decl name='void' .../> line and renumber type-id-N ids in order of first definition."""
    lines = [l for l in doc.split("\n") if not re.match(r"\s*<type-decl name='void' id='[^']*'/>\s*$", l)]
    text = "\n".join(lines)
    ids = {}
    for mm in re.finditer(r" id='(type-id-\d+)'", text):
        ids.setdefault(mm.group(1), "T%d" % len(ids))
    # the void id itself (defined on the removed line) keeps a fixed name
    return re.sub(r"type-id-\d+", lambda mo: ids.get(mo.group(0), "TVOID"), text)


def strip_declonly_bodies(doc):
    """Turn every <class-decl|union-decl ... is-declaration-only='yes' ...> that has a body into its self-closing form."""
    out, skip_until = [], None
    for l in doc.split("\n"):
        if skip_until is not None:
            if l == skip_until:
                skip_until = None
            continue
        mo = re.match(r"^(\s*)<(class-decl|union-decl) [^>]*is-declaration-only='yes'[^>]*[^/]>$", l)
        if mo:
            out.append(l[:-1] + "/>")
            skip_until = "%s</%s>" % (mo.group(1), mo.group(2))
            continue
        out.append(l)
    return "\n".join(out)


def run_case(case, cx):
    m, cfg, wopts = case["model"], case["cfg"], case["wopts"]
    d = cx.dir()
    try:
        b = cbuild.compile_model(m, cfg, d)
    except cbuild.CompileError as e:
        cx.cls("compile-error")
        raise Inconclusive(str(e))
    r = cbuild.tool("abidw", wopts + [b])
    if r.rc != 0 or cbuild.crashed(r):
        raise Inconclusive("abidw failed (C02's business)")
    x = d + "/lib.abi"
    open(x, "wb").write(r.out)
    doc = r.text()
    cx.cls("lang=" + m["lang"], "void_free=%s" % case["void_free"], "cc=" + cfg["cc"])
    if M.ntus(m) >= 2 and re.search(r"<(class-decl|union-decl|enum-decl) ", doc):
        cx.nt(case)
    cx.sample({"wopts": wopts, "cfg": cfg, "doc_head": doc[:500]})
    r2 = cbuild.tool("abilint", [x])
    if cbuild.crashed(r2):
        cx.violation("crash:" + cbuild.crash_key(r2), r2.brief())
        return
    if r2.rc != 0:
        cx.violation("abilint-failed", r2.brief())
        return
    out = r2.text()
    fmt = [o for o in FORMAT_OPTS if o in wopts]
    keys = []
    if out != doc:
        # Peel the known root causes off one by one; whatever difference remains is a new violation.
        ref = doc
        if fmt:
            # abilint cannot be told abidw's writer options: compare with the document abidw writes without them
            w0 = [o for o in wopts if o not in FORMAT_OPTS and o != "hash"]
            r0 = cbuild.tool("abidw", w0 + [b])
            if r0.rc == 0:
                ref = r0.text()
                keys.append("abilint-ignores-writer-options")
        if out != ref:
            stripped = re.sub(r" (tracking-non-reachable-types|is-non-reachable)='yes'", "", ref)
            if stripped != ref and (out == stripped or normalize_void(out) == normalize_void(stripped)):
                keys.append("abilint-drops-non-reachable-tracking")
                ref = stripped
        if out != ref and normalize_void(out) != normalize_void(ref):
            se = re.sub(r"\n\s*<abi-instr [^>]*>\n\s*</abi-instr>", "", ref)
            if se != ref:
                stripped2 = re.sub(r" (tracking-non-reachable-types|is-non-reachable)='yes'", "", se)
                for cand, ks in ((se, ["abilint-drops-empty-translation-unit"]),
                                 (stripped2, ["abilint-drops-empty-translation-unit", "abilint-drops-non-reachable-tracking"])):
                    if normalize_void(out) == normalize_void(cand):
                        keys += [k for k in ks if k not in keys]
                        ref = cand
                        break
        if out != ref and normalize_void(out) != normalize_void(ref):
            sb = strip_declonly_bodies(ref)
            if sb != ref and normalize_void(out) == normalize_void(sb):
                keys.append("declonly-class-body-dropped")
                ref = sb
        if out != ref:
            if normalize_void(out) == normalize_void(ref):
                if "name='void'" in ref:
                    keys.append("void-typedecl-order")
            else:
                import difflib
                diff = "\n".join(list(difflib.unified_diff(ref.split("\n"), out.split("\n"), lineterm="", n=1))[:60])
                cx.violation("abilint-not-fixpoint", {"wopts": wopts, "peeled": keys, "diff": diff, "files": M.render_files(m)})
                return
        for k in keys:
            cx.violation(k, {"wopts": wopts})
    r3 = cbuild.tool("abilint", ["--diff", x])
    if cbuild.crashed(r3):
        cx.violation("crash:" + cbuild.crash_key(r3), r3.brief())
    elif r3.rc != 0:
        if keys:
            cx.violation("abilint--diff-nonzero", {"because": keys})
        else:
            cx.violation("abilint--diff-nonzero-on-identical", r3.brief())
    elif keys:
        cx.violation("abilint--diff-zero-on-different", r3.brief())
