"""C18 — recorded symbol tables match the ELF symbol table."""
import collections
from hypothesis import strategies as st
from ..gen import strategies as S, model as M
from .. import cbuild
from ..oracle import abixml, elf
from ..runner import Inconclusive

PID = "C18"
LEVEL = "exploration"
N = {"quick": 600, "thorough": 10000}
RULE = ("Generated C/C++ libraries with aliases, weak/global bindings, hidden/protected visibility, GNU IFUNCs, TLS variables, "
        "common symbols (-fcommon relocatables), version scripts (default versions), static functions/variables; built as "
        "shared object, PIE, non-PIE executable or relocatable, linked by ld.bfd or ld.lld, with or without -g. Oracle "
        "(readelf -W -s on the table find_symbol_table_section documents: .dynsym for ET_DYN, .symtab for ET_REL/ET_EXEC): the "
        "multiset of (name, version, is-default, binding, type, visibility, size for variables) in abidw's "
        "<elf-function-symbols>/<elf-variable-symbols> equals the defined GLOBAL/WEAK, DEFAULT/PROTECTED "
        "FUNC/IFUNC/OBJECT(non-ABS)/TLS/COMMON symbols, and the alias groups equal the groups of symbols with equal "
        "(section, address). Non-trivial = at least one alias group and one versioned or non-FUNC/OBJECT symbol; distinct "
        "by SHA-1 of the case.")
ASSUMPTIONS = ["readelf is the independent ELF reader", "STB_GNU_UNIQUE symbols are outside the statement (don't care)"]

TYPE = {"FUNC": "func-type", "IFUNC": "gnu-ifunc-type", "GNU_IFUNC": "gnu-ifunc-type", "OBJECT": "object-type",
        "TLS": "tls-type", "COMMON": "common-type"}
BIND = {"GLOBAL": "global-binding", "WEAK": "weak-binding", "UNIQUE": "gnu-unique-binding"}
VIS = {"DEFAULT": "default-visibility", "PROTECTED": "protected-visibility"}


@st.composite
def strategy_(draw, tier):
    big = tier == "thorough"
    m = draw(S.library(lang=S._pick(draw, ["c", "c", "c", "cxx"]), max_types=4, min_funcs=2, max_funcs=10 if big else 7,
                       max_vars=5, symfeatures=True, versions=S._pick(draw, ["maybe", "yes"])))
    cfg = draw(S.build_config(kinds=("shared", "shared", "rel", "pie", "exe")))
    cfg["linker"] = S._pick(draw, ["bfd", "bfd", "lld"])
    cfg["g"] = draw(st.integers(0, 3)) != 0
    if m["lang"] == "c":
        for v in m["vars"]:
            c = draw(st.integers(0, 9))
            if c == 0 and not v.get("aliases") and not v.get("weak"):
                v["tls"] = True
            elif c in (1, 2, 3, 4) and cfg["kind"] == "rel" and not v.get("aliases") and not v.get("weak") and not v.get("version") \
                    and v.get("vis", "default") == "default" and not M._is_const_top(v["type"]):
                v["common"] = True   # no initialiser + -fcommon => SHN_COMMON in the relocatable
        for f in m["funcs"][1:]:
            if draw(st.integers(0, 9)) == 0 and not f.get("aliases") and not f.get("weak"):
                f["ifunc"] = True
    return {"model": m, "cfg": cfg}


def strategy(tier):
    return strategy_(tier)


def run_case(case, cx):
    m, cfg = case["model"], dict(case["cfg"])
    d = cx.dir()
    extra = []
    if any(v.get("common") for v in m["vars"]):
        extra.append("-fcommon")
    if cfg["kind"] == "rel" and cfg.get("linker") == "lld":
        cfg["linker"] = "bfd"
    try:
        b = cbuild.compile_model(m, cfg, d, extra_cflags=extra, nodebug_tus=() if cfg["g"] else tuple(range(M.ntus(m))))
    except cbuild.CompileError as e:
        cx.cls("compile-error")
        cx.extra["compile_error:" + str(e)[:80]] += 0
        raise Inconclusive(str(e))
    r = cbuild.tool("abidw", [b])
    if cbuild.crashed(r):
        cx.violation("crash:" + cbuild.crash_key(r), r.brief())
        return
    if r.rc != 0:
        # a binary without any public symbol / debug info is rejected; not this property's business
        cx.cls("abidw-nonzero")
        raise Inconclusive("abidw rc=%d: %s" % (r.rc, r.etext()[:200]))
    try:
        doc = abixml.Doc(r.out)
    except abixml.Malformed as e:
        raise Inconclusive("malformed xml (C04's business)")
    syms = elf.public_defined(elf.relevant_table(b))
    unique = [s for s in syms if s.bind == "UNIQUE"]
    exp = collections.Counter()
    for s in syms:
        if s.bind == "UNIQUE":
            continue
        typ = TYPE.get(s.type)
        isvar = typ in ("object-type", "tls-type", "common-type")
        exp[(s.name, s.version, s.default if s.version else None, BIND[s.bind], typ, VIS[s.vis],
             s.size if isvar and s.size else None, s.ndx == "COM")] += 1
    got = collections.Counter()
    uniq_names = set(s.name for s in unique)
    for s in doc.fn_syms + doc.var_syms:
        if s["name"] in uniq_names:
            continue
        ver = s.get("version")
        got[(s["name"], ver, (s.get("is-default-version") == "yes") if ver else None, s.get("binding"), s.get("type"),
             s.get("visibility"), int(s["size"]) if s.get("size") else None, s.get("is-common") == "yes")] += 1
    kinds = collections.Counter(k[4] for k in exp)
    cx.cls("kind=" + cfg["kind"], "linker=" + cfg.get("linker", "bfd"), "g=%s" % cfg["g"], "lang=" + m["lang"])
    for k in kinds:
        cx.cls("symtype=" + str(k))
    if any(k[7] for k in exp):
        cx.cls("has-common")
    # alias groups from readelf: same (ndx, value), more than one public symbol
    groups = collections.defaultdict(set)
    for s in syms:
        if s.bind != "UNIQUE" and s.ndx != "COM":
            groups[(s.ndx, s.value, s.type in ("FUNC", "IFUNC", "GNU_IFUNC"))].add(elf_id(s))
    egroups = set(frozenset(g) for g in groups.values() if len(g) > 1)
    if egroups and (any(k[1] for k in exp) or any(k[4] not in ("func-type", "object-type") or k[7] for k in exp)):
        cx.nt(case)
    cx.sample({"cfg": cfg, "n_symbols": sum(exp.values()), "types": dict(kinds), "alias_groups": [sorted(g) for g in egroups][:3]})
    det = {"cfg": cfg, "cmd": r.brief()["cmd"], "files": M.render_files(m)}
    if got != exp:
        miss = sorted((exp - got).elements(), key=str)[:8]
        extra_ = sorted((got - exp).elements(), key=str)[:8]
        what = "missing" if miss and not extra_ else "unexpected" if extra_ and not miss else "attributes-differ"
        cx.violation("symbol-table-mismatch:" + what, dict(det, only_in_elf=miss, only_in_abixml=extra_))
        return
    ggroups = set()
    for s in doc.fn_syms + doc.var_syms:
        if s.get("alias"):
            ggroups.add(frozenset([abixml.sym_id(s)] + s["alias"].split(",")))
    # abixml lists the alias attribute on the main symbol only; normalise to sets of ids
    norm = lambda gs: set(frozenset(x.replace("@@", "@") for x in g) for g in gs)
    if norm(ggroups) != norm(egroups):
        cx.violation("alias-groups-differ", dict(det, elf=[sorted(g) for g in egroups], abixml=[sorted(g) for g in ggroups]))


def elf_id(s):
    return s.name + (("@@" if s.default else "@") + s.version if s.version else "")
