"""C16 — recorded function and variable signatures match the source."""
from hypothesis import strategies as st
from ..gen import strategies as S, model as M
from .. import cbuild
from ..oracle import abixml, typegraph, elf
from ..runner import Inconclusive

PID = "C16"
LEVEL = "exploration"
N = {"quick": 600, "thorough": 10000}
RULE = ("Generated C/C++ libraries (typedef chains, cv-qualifiers at any level, pointers to functions incl. variadic, arrays "
        "of 1-2 dimensions, references, enums, structs/unions/classes, same-named TU-private types) x gcc/clang x DWARF 4/5 "
        "x shared/relocatable. Oracle: a structural walk of the model's type expressions against the type graph of abidw's "
        "ABIXML (independent expat reader) for every exported function (return type, parameter count, each parameter type, "
        "variadic marker) and every exported variable: pointer <-> pointer-type-def, reference <-> reference-type-def, cv <-> "
        "qualified-type-def with exactly the source's qualifiers, typedef name and its target, aggregate / enum kind and name, "
        "array dimensions, function types. Builtin names are compared up to the word order / optional 'int' that compilers "
        "use in DWARF. Only the two documented normalisations are accepted (const on a reference, const on void). "
        "Non-trivial = the signature involves a typedef and a cv-qualifier; distinct by SHA-1 of the case.")
ASSUMPTIONS = ["the compilers record the source types faithfully in DWARF", "a top-level const on a by-value parameter is part of "
               "the declared parameter type and is expected to be recorded (DWARF has it)"]


@st.composite
def strategy_(draw, tier):
    big = tier == "thorough"
    m = draw(S.library(lang="any", max_types=12 if big else 8, max_funcs=8 if big else 6, max_vars=4, symfeatures=False, tu_private=25))
    cfg = draw(S.build_config(kinds=("shared", "shared", "rel")))
    return {"model": m, "cfg": cfg}


def strategy(tier):
    return strategy_(tier)


def has_typedef_and_cv(m, i):
    def walk(t, acc):
        k = t[0]
        if k in ("c", "v"):
            acc.add("cv")
        if k == "n" and M.type_index(m)[t[1]]["kind"] == "typedef":
            acc.add("td")
            walk(M.type_index(m)[t[1]]["type"], acc)
        if k in ("p", "r", "c", "v", "a"):
            walk(t[1], acc)
        if k == "fn":
            walk(t[1], acc)
            for p in t[2]:
                walk(p, acc)
        return acc
    acc = set()
    for t in ([i["ret"]] + [p["type"] for p in i["params"]]) if "params" in i else [i["type"]]:
        walk(t, acc)
    return acc == {"cv", "td"}


def top_cv(m, t):
    idx = M.type_index(m)
    while True:
        if t[0] in ("c", "v"):
            return True
        if t[0] == "n" and idx[t[1]]["kind"] == "typedef":
            t = idx[t[1]]["type"]
            continue
        return False


def run_case(case, cx):
    m, cfg = case["model"], dict(case["cfg"])
    if cfg["cc"] == "clang":
        cfg["cflags"] = ["-fstandalone-debug"]
    d = cx.dir()
    try:
        b = cbuild.compile_model(m, cfg, d)
    except cbuild.CompileError as e:
        cx.cls("compile-error")
        raise Inconclusive(str(e))
    r = cbuild.tool("abidw", [b])
    if cbuild.crashed(r):
        cx.violation("crash:" + cbuild.crash_key(r), r.brief())
        return
    if r.rc != 0:
        raise Inconclusive("abidw rc=%d" % r.rc)
    try:
        doc = abixml.Doc(r.out)
    except abixml.Malformed:
        raise Inconclusive("malformed (C04's business)")
    w = typegraph.Walker(doc, M.type_index(m))
    fdecls = {}
    for el in doc.decls("function-decl"):
        fdecls.setdefault(el.attrib.get("name"), []).append(el)
    vdecls = {}
    for el in doc.decls("var-decl"):
        vdecls.setdefault(el.attrib.get("name"), []).append(el)
    cx.cls("lang=" + m["lang"], "cc=" + cfg["cc"], "dwarf=%d" % cfg["dwarf"], "kind=" + cfg["kind"])
    nchecked = 0
    nt = False
    dw = elf.dwarf_subprograms(b)
    det = {"cfg": cfg, "files": M.render_files(m)}
    for k, i in M.exported(m):
        els = (fdecls if k == "fn" else vdecls).get(i["name"], [])
        els = [e for e in els if e.attrib.get("elf-symbol-id")]
        if len(els) != 1:
            cx.violation("exported-%s-has-%d-declarations" % (k, len(els)), dict(det, interface=i["name"]))
            return
        e = els[0]
        if k == "fn":
            # the oracle is the source; where the *compiler's* DWARF already deviates from the source in the number of
            # parameters (seen: clang omits an unused by-value parameter of a non-trivially-copyable class) the interface
            # is not asserted
            recs = dw.get(i["name"], [])
            if not any(n == len(i["params"]) and bool(v) == bool(i.get("variadic")) for n, v in recs):
                cx.extra["compiler-dwarf-deviates-from-source"] += 1
                continue
        try:
            if k == "fn":
                ret = i["ret"]
                if top_cv(m, ret):
                    # a top-level qualifier on a return type (only possible through a typedef here) is dropped by the
                    # language; compilers record the unqualified type and may drop the typedef with it: not asserted
                    cx.extra["return-type-with-top-level-cv(unasserted)"] += 1
                    ret = None
                w.match_signature(ret, [p["type"] for p in i["params"]], i.get("variadic"), e, i["name"])
            else:
                w.match(i["type"], e.attrib["type-id"], i["name"])
        except typegraph.Mismatch as x:
            what = str(x)
            cls = "qualifier" if "qualif" in what else "builtin" if "builtin" in what else "array" if "array" in what else \
                "parameters" if "parameter" in what or "variadic" in what else "type"
            cx.violation("signature-mismatch:" + cls, dict(det, interface=i["name"], mismatch=what,
                                                             source=(M.fn_proto(m, i, m["lang"] == "cxx") if k == "fn" else
                                                                     M.decl(m, i["type"], i["name"], m["lang"] == "cxx"))))
            return
        nchecked += 1
        cx.evaluations += 1
        nt = nt or has_typedef_and_cv(m, i)
    if nt:
        cx.nt(case)
    cx.sample({"cfg": cfg, "interfaces_checked": nchecked,
               "example": [M.fn_proto(m, f, m["lang"] == "cxx") for f in m["funcs"][:2]]})
