"""C40 — hash-style type ids identify types independently of the document."""
import collections
from hypothesis import strategies as st
from ..gen import strategies as S, model as M, multi
from .. import cbuild, pairs
from ..oracle import abixml
from ..runner import Inconclusive

PID = "C40"
LEVEL = "exploration"
N = {"quick": 500, "thorough": 8000}
RULE = ("Pairs of generated C/C++ libraries (P, P') where P' differs from P by 1-6 changes (types changed in place, "
        "interfaces added / removed / re-typed, so that each document has types the other lacks), plus a third, unrelated "
        "library; `abidw --type-id-style hash` on each. Oracle: every named type (element kind + name: class/struct, union, "
        "enum, typedef, builtin type-decl) that occurs exactly once in two documents has the same id in both, unless one of "
        "the documents shows evidence of collision probing for that id (the id minus one, or plus one, is also defined "
        "there: the writer resolves a collision by incrementing); a struct that one library defines and the other only declares "
        "counts as the same type. Ids must also be 8 hexadecimal digits. Non-trivial = at "
        "least 3 shared named types and each document has a named type the other lacks; distinct by SHA-1 of the case.")
ASSUMPTIONS = ["a type's 'internal name' is determined by its kind and qualified name for named types"]
TAGS = ("class-decl", "union-decl", "enum-decl", "typedef-decl", "type-decl")


@st.composite
def strategy_(draw, tier):
    c = draw(multi.multi_pair(tier, lo=1, hi=6, nodebug=False, symfeatures=False, tu_private=0))
    c["third"] = draw(S.library(lang=c["model"]["lang"], max_types=6, max_funcs=4))
    # each document gets named types the other lacks (their number and kind vary the set of ids around the shared types)
    for key, stem in (("model", "onlya"), ("mutant", "onlyb")):
        mm = c[key]
        for j in range(draw(st.integers(0, 3))):
            nm = "%s%d" % (stem, j)
            kind = S._pick(draw, ["struct", "enum", "typedef"])
            if kind == "struct":
                mm["types"].append({"kind": "struct", "name": nm, "members": [{"name": "x", "type": ["b", "int"], "bits": None}]})
            elif kind == "enum":
                mm["types"].append({"kind": "enum", "name": nm, "enumerators": [[nm.upper() + "_E0", None]]})
            else:
                mm["types"].append({"kind": "typedef", "name": nm, "type": ["b", S._pick(draw, ["long", "char", "double"])]})
            f = {"name": "use_" + nm, "ret": ["b", "int"], "params": [{"name": "p", "type": ["p", ["n", nm]]}], "variadic": False,
                 "tu": 0, "body": 1}
            if mm["lang"] == "cxx":
                f["extern_c"] = False
            mm["funcs"].append(f)
    # a struct that one library defines and the other only declares (and uses through a pointer): the same internal name,
    # once with and once without a definition
    if draw(st.integers(0, 2)) == 0:
        full, decl_only = ("model", "mutant") if draw(st.booleans()) else ("mutant", "model")
        c[full]["types"].append({"kind": "struct", "name": "shr0", "members": [{"name": "x", "type": ["b", "int"], "bits": None},
                                                                               {"name": "y", "type": ["p", ["b", "char"]], "bits": None}]})
        c[decl_only]["types"].append({"kind": "opaque", "name": "shr0"})
        for key in ("model", "mutant"):
            f = {"name": "use_shr0", "ret": ["b", "int"], "params": [{"name": "p", "type": ["p", ["n", "shr0"]]}], "variadic": False,
                 "tu": 0, "body": 1}
            if c[key]["lang"] == "cxx":
                f["extern_c"] = False
            c[key]["funcs"].append(f)
    return c


def strategy(tier):
    return strategy_(tier)


def named_ids(doc):
    out = collections.defaultdict(list)
    for tag in TAGS:
        for el in doc.root.iter(tag):
            n = el.attrib.get("name")
            if not n or "id" not in el.attrib or n.startswith("__anonymous_") or el.attrib.get("is-anonymous") == "yes":
                continue
            # a declaration-only class and its definition have the same internal name ("class X"; the internal representation
            # does not distinguish struct from class either)
            key = (tag, n)
            out[key].append(el.attrib["id"])
    return out


def run_case(case, cx):
    cfg = case["cfg"]
    d = cx.dir()
    docs = []
    try:
        for tag, m in (("a", case["model"]), ("b", case["mutant"]), ("c", case["third"])):
            b = cbuild.compile_model(m, cfg, d + "/" + tag)
            r = cbuild.tool("abidw", ["--type-id-style", "hash", b])
            if cbuild.crashed(r):
                cx.violation("crash:" + cbuild.crash_key(r), r.brief())
                return
            if r.rc != 0:
                raise Inconclusive("abidw rc=%d" % r.rc)
            docs.append((tag, abixml.Doc(r.out)))
    except cbuild.CompileError as e:
        cx.cls("compile-error")
        raise Inconclusive(str(e))
    except abixml.Malformed as e:
        raise Inconclusive("malformed")
    ids = [(tag, named_ids(doc), set(doc.ids)) for tag, doc in docs]
    cx.cls("lang=" + case["model"]["lang"], "cc=" + cfg["cc"])
    import re
    for tag, ni, allids in ids:
        for i in allids:
            if not re.match(r"^[0-9a-f]{8}$", i):
                cx.violation("id-not-8-hex-digits", {"doc": tag, "id": i})
                return
    shared_total = 0
    for x in range(len(ids)):
        for y in range(x + 1, len(ids)):
            (ta, na, alla), (tb, nb, allb) = ids[x], ids[y]
            shared = [k for k in na if k in nb and len(na[k]) == 1 and len(nb[k]) == 1]
            if (ta, tb) == ("a", "b"):
                shared_total = len(shared)
                if len(shared) >= 3 and set(na) - set(nb) and set(nb) - set(na):
                    cx.nt(case)
            for k in shared:
                ia, ib = na[k][0], nb[k][0]
                if ia == ib:
                    continue
                def probing(i, allids):
                    v = int(i, 16)
                    return ("%08x" % ((v - 1) & 0xFFFFFFFF)) in allids or ("%08x" % ((v + 1) & 0xFFFFFFFF)) in allids
                if probing(ia, alla) or probing(ib, allb):
                    cx.cls("collision-probing-evidenced")
                    continue
                cx.violation("same-type-different-hash-id", {"type": k, "docs": [ta, tb], "ids": [ia, ib],
                                                             "changes": [i["kind"] for i in case["infos"]]})
                return
    cx.cls("shared=%d" % min(shared_total, 8))
    cx.sample({"changes": [i["kind"] for i in case["infos"]], "shared_named_types_a_b": shared_total,
               "example_ids": dict((k[0] + ":" + k[1], v[0]) for k, v in list(ids[0][1].items())[:5])})
