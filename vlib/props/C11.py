"""C11 — removal in one direction is addition in the other."""
from hypothesis import strategies as st
from ..gen import strategies as S, model as M, multi
from .. import cbuild, pairs
from ..oracle import report as R
from ..runner import Inconclusive

PID = "C11"
LEVEL = "exploration"
N = {"quick": 500, "thorough": 8000}
RULE = ("Pairs (A, B) differing by 1-6 changes of mixed kinds (breaking, added/removed interfaces, alias, binding and "
        "symbol-version changes, a translation unit without debug info, a symbols-only flavour without any debug info), "
        "compared as `abidiff --no-default-suppression A B` and `... B A` (default mode and --redundant). Oracle: the "
        "entries of the Removed sections of one direction (functions, variables, function/variable symbols not referenced "
        "by debug info) are exactly the entries of the Added sections of the other direction, and the Changed sections "
        "name the same interfaces in both directions. Non-trivial = at least one removed and one added interface; distinct "
        "by SHA-1 of the case.")
ASSUMPTIONS = ["entry identity = quoted pretty representation + {linkage name} as printed; symbol entries = name[@[@]version]"]

PAIRS = [("fn_removed", "fn_added"), ("var_removed", "var_added"), ("fsym_removed", "fsym_added"),
         ("vsym_removed", "vsym_added")]
ASYM = "unversioned-vs-default-version-asymmetry"
ALIAS = "alias-symbol-addition-or-removal-reported-in-one-direction-only"


@st.composite
def strategy_(draw, tier):
    # the harmless catalog is left out: appending an enumerator is filtered by default while its reverse (deleting one)
    # is a reported change, so "changed in both directions" is not expected of those edits under default options
    kinds = [k for k in multi.KINDS if k[0] != "harmless"]
    c = draw(multi.multi_pair(tier, lo=1, hi=6, symonly_pct=25, kinds=kinds))
    c["mode"] = S._pick(draw, [[], [], ["--redundant"], ["--harmless"]])
    return c


def strategy(tier):
    return strategy_(tier)


def _base(n):
    return n[0].split("@")[0] if n[1] is None else n


def version_flips(m, m2):
    """Names whose symbol is unversioned in one program and versioned in the other (aliases included)."""
    out = set()
    i2 = dict((i["name"], i) for k, i in M.interfaces(m2))
    for k, i in M.interfaces(m):
        j = i2.get(i["name"])
        if j is not None and bool(i.get("version")) != bool(j.get("version")):
            out.add(i.get("mangled", i["name"]))
    return out


def iface_ids(rep, keys, m, m2):
    """Identity of the interfaces named by [C] entries: the linkage name when printed, else the model interface whose
    name occurs in the pretty representation (the representation itself carries the signature / type, which legitimately
    differs between the two directions)."""
    import re
    names = sorted(set(i["name"] for mm in (m, m2) for k, i in M.interfaces(mm)), key=len, reverse=True)
    out = set()
    for key in keys:
        for pretty, linkage in rep.names(key):
            hit = None
            for n in names:
                if re.search(r"(?<![A-Za-z0-9_])" + re.escape(n) + r"(?![A-Za-z0-9_])", pretty):
                    hit = n
                    break
            out.add(hit or linkage or pretty)
    return out


def alias_changes(m, m2):
    """Names of alias symbols present in only one of the two programs, and of the symbols they alias."""
    def al(mm):
        return dict((a["name"], i["name"]) for k, i in M.interfaces(mm) for a in i.get("aliases", []))
    a1, a2 = al(m), al(m2)
    out = set()
    for n in set(a1) ^ set(a2):
        out.add(n)
        out.add(a1.get(n) or a2.get(n))
    return out


def names_of(rep, key):
    return sorted(set(rep.names(key)))


def run_case(case, cx):
    m, m2, cfg = case["model"], case["mutant"], case["cfg"]
    d, b1, b2 = pairs.build_pair(cx, m, m2, cfg, nodebug_tus=tuple(case["nodebug"]), sonames=case.get("sonames"))
    opts = list(case["mode"])
    f = pairs.abidiff(cx, b1, b2, opts)
    r = pairs.abidiff(cx, b2, b1, opts)
    for x in (f, r):
        if cbuild.crashed(x):
            cx.violation("crash:" + cbuild.crash_key(x), x.brief())
            return
        if x.rc & R.STATUS_ERROR:
            raise Inconclusive("error status")
    fr = pairs.parse_or_oracle_error(cx, f)
    rr = pairs.parse_or_oracle_error(cx, r)
    kinds = [i["kind"] for i in case["infos"]]
    cx.cls("mode=" + (" ".join(opts) or "default"), "lang=" + m["lang"],
           "nodebug=%s" % ("all" if len(case["nodebug"]) >= M.ntus(m) else bool(case["nodebug"])))
    for k in set(kinds):
        cx.cls("chg=" + k)
    nrem = sum(len(fr.names(a)) for a, b in PAIRS)
    nadd = sum(len(fr.names(b)) for a, b in PAIRS)
    if nrem and nadd:
        cx.nt(case)
    cx.sample({"changes": kinds, "opts": opts, "fwd_rc": f.rc, "rev_rc": r.rc,
               "fwd_removed": [names_of(fr, a) for a, b in PAIRS], "rev_added": [names_of(rr, b) for a, b in PAIRS]})
    flips = version_flips(m, m2)
    alch = alias_changes(m, m2)
    det = {"changes": kinds, "opts": opts, "fwd": f.brief(), "rev": r.brief()}
    asym = alias = False
    for a, b in PAIRS:
        for x, y, tag in ((fr, rr, "fwd-removed-vs-rev-added"), (rr, fr, "rev-removed-vs-fwd-added")):
            s1, s2 = set(x.names(a)), set(y.names(b))
            if s1 == s2:
                continue
            diff = s1 ^ s2
            # the one recorded asymmetry: an unversioned symbol of the first operand is considered to be the same symbol
            # as name@@VER of the second operand, but not the other way round.  Recognised only when every offending entry
            # is a bare symbol (no debug-info entry) whose name flips between unversioned and versioned in the model.
            symname = lambda n: (n[1] or n[0]).split("@")[0]
            # Two recorded defects, recognised entry by entry and only from the model's own knowledge of the symbols:
            # (1) unversioned <-> name@@VER is "the same symbol" only in one direction (entries whose symbol flips between
            # unversioned and versioned); (2) the symbol sequences are diffed with an equality that treats aliases as
            # equal, so an alias added to (removed from) an existing symbol can be paired with that symbol and drop out
            # of one direction (bare symbol entries whose name is an alias existing in one program only, or its target).
            kinds_ = ["asym" if symname(n) in flips else "alias" if (n[1] is None and symname(n) in alch) else None
                      for n in diff]
            if all(kinds_):
                asym = asym or "asym" in kinds_
                alias = alias or "alias" in kinds_
                continue
            cx.violation("removed-added-mismatch:" + a.split("_")[0], dict(det, which=tag, only_one_side=sorted(diff)[:10]))
            return
    c1 = iface_ids(fr, ("fn_changed", "var_changed"), m, m2)
    c2 = iface_ids(rr, ("fn_changed", "var_changed"), m, m2)
    if c1 != c2:
        cx.violation("changed-sets-differ", dict(det, only_fwd=sorted(c1 - c2)[:10], only_rev=sorted(c2 - c1)[:10]))
        return
    if asym:
        cx.violation(ASYM, det)
    if alias:
        cx.violation(ALIAS, det)
