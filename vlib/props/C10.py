"""C10 — report summaries agree with the listed entries."""
import re
from hypothesis import strategies as st
from ..gen import strategies as S, model as M, multi, suppr
from .. import cbuild, pairs
from ..oracle import report as R
from ..runner import Inconclusive

PID = "C10"
LEVEL = "exploration"
N = {"quick": 500, "thorough": 8000}
RULE = ("Pairs (P, P') differing by 1-6 changes of mixed kinds (breaking, harmless, added and removed functions/variables, "
        "alias / binding / version changes, one translation unit optionally without debug info), compared by abidiff with "
        "default options, --harmless, --redundant or --leaf-changes-only, with and without a generated suppression file that "
        "names some of the changed interfaces or types. Oracle: for every removed/changed/added functions/variables and "
        "removed/added function/variable symbols line of the summary, net count == number printed in the section header == "
        "number of [D]/[C]/[A] entries listed (and no section when the net count is 0); no count exceeds the number of "
        "interfaces the two programs have (unsigned underflow when filtered > total); `abidiff --stat` prints exactly the "
        "summary block of the full report. Non-trivial = at least two sections non-empty; distinct by SHA-1 of the case.")
ASSUMPTIONS = ["section headers and entry lines are recognised by vlib/oracle/report.py; a report the parser cannot account for "
               "is an oracle error (inconclusive), never a violation"]

MODES = [[], [], ["--harmless"], ["--redundant"], ["--leaf-changes-only"], ["--harmless", "--redundant"]]
KEYS = ["fn_removed", "fn_changed", "fn_added", "var_removed", "var_changed", "var_added",
        "fsym_removed", "fsym_added", "vsym_removed", "vsym_added"]


@st.composite
def strategy_(draw, tier):
    c = draw(multi.multi_pair(tier, lo=2, hi=6, symonly_pct=20))
    c["mode"] = S._pick(draw, MODES)
    c["suppr"] = suppr.targeting(draw, c["model"], c["mutant"], c["infos"]) if draw(st.integers(0, 1)) == 0 else None
    return c


def strategy(tier):
    return strategy_(tier)


def summary_block(text):
    out = []
    for l in text.split("\n"):
        if "summary:" in l or l in ("ELF SONAME changed", "ELF architecture changed"):
            out.append(l)
    return out


def check_report(cx, rep, bound, det, leaf):
    nonempty = 0
    for k in KEYS:
        if k not in rep.summary:
            continue
        net, filt = rep.summary[k]
        sec = rep.sections.get(k)
        if net > bound or filt > bound:
            cx.violation("count-exceeds-interfaces:" + k, dict(det, key=k, net=net, filtered=filt, bound=bound))
            return None
        if net == 0:
            if sec is not None and sec["entries"]:
                cx.violation("entries-listed-but-summary-zero:" + k, dict(det, key=k, entries=sec["entries"][:5]))
                return None
            continue
        nonempty += 1
        if sec is None:
            cx.violation("summary-nonzero-but-no-section:" + k, dict(det, key=k, net=net))
            return None
        if sec["count"] != net:
            cx.violation("section-header-differs-from-summary:" + k, dict(det, key=k, net=net, header=sec["count"]))
            return None
        if len(sec["entries"]) != net:
            cx.violation("entries-differ-from-summary:" + k, dict(det, key=k, net=net, listed=len(sec["entries"]),
                                                                 entries=sec["entries"][:8]))
            return None
    for k, sec in rep.sections.items():
        if k in KEYS and k not in rep.summary and sec["entries"]:
            cx.violation("section-without-summary-line:" + k, dict(det, key=k))
            return None
    return nonempty


def run_case(case, cx):
    m, m2, cfg = case["model"], case["mutant"], case["cfg"]
    d, b1, b2 = pairs.build_pair(cx, m, m2, cfg, nodebug_tus=tuple(case["nodebug"]), sonames=case.get("sonames"))
    opts = list(case["mode"])
    if case["suppr"]:
        sp = d + "/s.suppr"
        open(sp, "w").write(case["suppr"])
        opts += ["--suppressions", sp]
    r = pairs.abidiff(cx, b1, b2, opts)
    cx.cls("mode=" + (" ".join(case["mode"]) or "default"), "suppr=%s" % bool(case["suppr"]), "lang=" + m["lang"],
           "nodebug=%s" % ("all" if len(case["nodebug"]) >= M.ntus(m) else bool(case["nodebug"])), "nchanges=%d" % len(case["infos"]))
    if cbuild.crashed(r):
        cx.violation("crash:" + cbuild.crash_key(r), r.brief())
        return
    if r.rc & R.STATUS_ERROR:
        raise Inconclusive("abidiff error status")
    det = {"changes": [i["kind"] for i in case["infos"]], "opts": opts, "suppr": case["suppr"], "run": r.brief()}
    rep = pairs.parse_or_oracle_error(cx, r)
    bound = 4 * (len(M.interfaces(m)) + len(M.interfaces(m2)) + 8)
    ne = check_report(cx, rep, bound, det, "--leaf-changes-only" in opts)
    if ne is None:
        return
    cx.cls("nonempty_sections=%d" % min(ne, 4))
    if ne >= 2:
        cx.nt(case)
    cx.sample({"changes": det["changes"], "opts": opts, "suppr": case["suppr"], "rc": r.rc,
               "summary": summary_block(r.text())})
    s = pairs.abidiff(cx, b1, b2, opts + ["--stat"])
    if cbuild.crashed(s):
        cx.violation("crash:" + cbuild.crash_key(s), s.brief())
        return
    if s.rc != r.rc:
        cx.violation("stat-exit-status-differs", dict(det, stat=s.brief()))
        return
    if summary_block(s.text()) != summary_block(r.text()) or [l for l in s.text().split("\n") if l.strip()] != summary_block(s.text()):
        cx.violation("stat-summary-differs", dict(det, stat=s.brief()))
