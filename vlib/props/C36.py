"""C36 — tools report failure when their output could not be written."""
import os, re, shutil
from hypothesis import strategies as st
from ..gen import strategies as S, model as M
from .. import cbuild, build
from ..runner import Inconclusive

PID = "C36"
LEVEL = "fault_enumeration"
N = {"quick": 24, "thorough": 300}
RULE = ("For ABIXML-producing runs on generated libraries (abidw to standard output, abidw --out-file, abilint to standard "
        "output; documents of 1 kB to ~100 kB so that the output takes from one to many write calls): the run is first "
        "traced (strace -P <output file>) to count the N system calls made on the output (write, writev, pwrite64, close, "
        "fsync); then it is repeated once for EVERY k in 1..N with the k-th of those calls failing (strace -e inject=...:"
        "error=ENOSPC or EIO:when=k), plus /dev/full as destination. Oracle: whenever a fault was injected (strace confirms "
        "'(INJECTED)') the tool's exit status is non-zero. Exhaustive in k for each run. Non-trivial = the output takes at "
        "least 2 calls; distinct = (document, destination, k, errno).")
ASSUMPTIONS = ["strace's syscall fault injection stands for a full disk / failing device", "a failing close(2) of standard "
               "output at process exit is outside what a program can observe and is not injected for the stdout runs"]
STRACE = shutil.which("strace")


@st.composite
def strategy_(draw, tier):
    big = draw(st.integers(0, 2)) == 0
    m = draw(S.library(lang="any", max_types=14 if big else 5, max_funcs=8 if big else 3, symfeatures=False))
    cfg = draw(S.build_config())
    return {"model": m, "cfg": cfg, "annotate": big and draw(st.booleans()), "errno": S._pick(draw, ["ENOSPC", "EIO"])}


def strategy(tier):
    return strategy_(tier)


def traced(tool, args, out, stdout_to, inject=None, cwd=None):
    exe = os.path.join(build.BUILD, "plain", "bin", tool)
    log = out + ".strace"
    cmd = [STRACE, "-f", "-o", log, "-P", out, "-e", "trace=write,writev,pwrite64,close,fsync,fdatasync"]
    if inject:
        cmd += ["-e", "inject=%s:error=%s:when=%d" % inject]
    cmd += [exe] + args
    with open(stdout_to, "wb") if stdout_to else open(os.devnull, "wb") as fo:
        rc, so, se = cbuild.sh(cmd, env=cbuild.tool_env(), timeout=120) if not stdout_to else _run_to(cmd, fo)
    try:
        lines = open(log, errors="replace").read().split("\n")
    except OSError:
        lines = []
    calls = [l for l in lines if re.search(r"\b(write|writev|pwrite64|close|fsync|fdatasync)\(", l)]
    return rc, calls, se


def _run_to(cmd, fo):
    import subprocess
    try:
        r = subprocess.run(cmd, stdout=fo, stderr=subprocess.PIPE, env=cbuild.tool_env(), timeout=120, stdin=subprocess.DEVNULL)
        return r.returncode, b"", r.stderr
    except subprocess.TimeoutExpired:
        return -999, b"", b""


def run_case(case, cx):
    if not STRACE:
        raise Inconclusive("strace not available")
    m, cfg = case["model"], case["cfg"]
    d = cx.dir()
    try:
        b = cbuild.compile_model(m, cfg, d)
    except cbuild.CompileError as e:
        cx.cls("compile-error")
        raise Inconclusive(str(e))
    ref = cbuild.tool("abidw", [b])
    if ref.rc != 0 or cbuild.crashed(ref):
        raise Inconclusive("abidw failed")
    good = d + "/good.abi"
    open(good, "wb").write(ref.out)
    ann = ["--annotate"] if case["annotate"] else []
    runs = [("abidw-stdout", "abidw", ann + [b], True), ("abidw-out-file", "abidw", ann + ["--out-file", "{out}", b], False),
            ("abilint-stdout", "abilint", [good], True)]
    err = case["errno"]
    cx.cls("doc_kB=%d+" % (len(ref.out) // 1024 // 10 * 10), "errno=" + err)
    summary = {}
    for tag, tool, args, to_stdout in runs:
        out = d + "/" + tag + ".out"
        a = [x.replace("{out}", out) for x in args]
        rc, calls, se = traced(tool, a, out, out if to_stdout else None)
        if rc != 0:
            raise Inconclusive("clean traced run failed: rc=%s %s" % (rc, se[-200:]))
        writes = [c for c in calls if not re.search(r"\bclose\(", c)]
        n = len(calls)
        if n == 0:
            raise Inconclusive("no output syscall seen by strace")
        summary[tag] = n
        cx.cls("%s:calls=%s" % (tag, n if n < 5 else "5+"))
        for k in range(1, n + 1):
            # the k-th call on the output, whatever it is: each syscall class is injected with its own 'when' counter, so
            # find which class the k-th call belongs to and which occurrence of that class it is
            name = re.search(r"\b(write|writev|pwrite64|close|fsync|fdatasync)\(", calls[k - 1]).group(1)
            if to_stdout and name == "close":
                continue
            occ = sum(1 for c in calls[:k] if re.search(r"\b%s\(" % name, c))
            rc2, calls2, se2 = traced(tool, a, out, out if to_stdout else None, inject=(name, err, occ))
            cx.evaluations += 1
            injected = any("(INJECTED)" in c for c in calls2)
            if not injected:
                cx.extra["injection-not-reached"] += 1
                continue
            if n >= 2:
                cx.nt("%s:%s:%d:%s" % (M.sha(case), tag, k, err))
            if rc2 == 0:
                cx.violation("write-failure-ignored:%s:%s" % (tag, name),
                             {"run": tag, "cmd": [tool] + a, "k": k, "of": n, "syscall": name, "errno": err,
                              "stderr": se2.decode(errors="replace")[-300:], "trace": calls2[-3:]})
                return
    # /dev/full
    for tag, tool, args in (("abidw>/dev/full", "abidw", [b]), ("abidw --out-file /dev/full", "abidw", ["--out-file", "/dev/full", b]),
                            ("abilint>/dev/full", "abilint", [good])):
        exe = os.path.join(build.BUILD, "plain", "bin", tool)
        import subprocess
        with open("/dev/full", "wb") as fo:
            r = subprocess.run([exe] + args, stdout=fo if ">" in tag else subprocess.DEVNULL, stderr=subprocess.PIPE,
                               env=cbuild.tool_env(), stdin=subprocess.DEVNULL)
        cx.evaluations += 1
        if r.returncode == 0:
            cx.violation("write-failure-ignored:/dev/full:" + tool, {"run": tag, "stderr": r.stderr.decode(errors="replace")[-300:]})
            return
    cx.sample({"doc_bytes": len(ref.out), "errno": err, "output_syscalls_per_run": summary})
