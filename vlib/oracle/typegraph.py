"""Walks over the type graph of an ABIXML document (vlib/oracle/abixml.Doc), used by C15 / C16."""
import re

_WORDS_DROP = {"int"}


def canon_builtin(name):
    """'short unsigned int' / 'unsigned short' / 'unsigned short int' -> frozenset({'unsigned','short'}); 'int' -> {'int'}."""
    name = {"bool": "_Bool"}.get(name, name)
    ws = name.split()
    if not ws:
        return frozenset()
    if any(w in ("short", "long", "unsigned", "signed") for w in ws):
        ws = [w for w in ws if w != "int"]
    # plain 'signed' is implied for short/long/int
    if "signed" in ws and any(w in ("short", "long") for w in ws):
        ws = [w for w in ws if w != "signed"]
    if ws == ["signed"]:
        ws = ["int"]
    if ws == ["unsigned"]:
        ws = ["unsigned"]
    return frozenset([(w, ws.count(w)) for w in ws])


class Mismatch(Exception):
    pass


def name_eq(recorded, source):
    """Type names agree up to the compiler's spelling of builtin template arguments (tp4<long unsigned int> == tp4<unsigned long>)."""
    if recorded == source:
        return True
    m1, m2 = re.match(r"^(\w+)<(.*)>$", recorded or ""), re.match(r"^(\w+)<(.*)>$", source or "")
    return bool(m1 and m2 and m1.group(1) == m2.group(1) and canon_builtin(m1.group(2)) == canon_builtin(m2.group(2)))


class Walker:
    def __init__(self, doc, model_types):
        self.doc = doc
        self.types = model_types      # name -> model type definition

    def el(self, tid):
        e = self.doc.type(tid)
        if e is None:
            raise Mismatch("dangling type id %s" % tid)
        return e

    def resolve_decl(self, e):
        """declaration-only class -> its definition when the document has one of the same name."""
        return e

    def match(self, t, tid, path, top_param=False):
        """Does the model type expression t describe the ABIXML type tid?  Raises Mismatch(path: what)."""
        e = self.el(tid)
        k = t[0]
        tag = e.tag
        if k in ("c", "v"):
            quals = set()
            tt = t
            while tt[0] in ("c", "v"):
                quals.add(tt[0])
                tt = tt[1]
            if tt[0] == "void" and quals == {"c"} and tag == "type-decl":
                return self.match(tt, tid, path)        # documented: const void is recorded as void
            if tt[0] == "r":
                return self.match(tt, tid, path)        # documented: a cv-qualified reference is recorded unqualified
            if tt[0] == "a":
                # qualifiers on an array apply to its elements
                return self.match(["a", self._wrap(quals, tt[1]), tt[2]], tid, path)
            if tag != "qualified-type-def":
                if quals <= self.top_quals(tt):
                    # the source repeats a qualifier its typedef already carries (`const td4` with `typedef const T td4`):
                    # idempotent in the language, compilers record the typedef alone
                    return self.match(tt, tid, path + "/idempotent-qualifier")
                raise Mismatch("%s: expected %s-qualified type, found <%s>" % (path, "/".join(sorted(quals)), tag))
            got = set()
            if e.attrib.get("const") == "yes":
                got.add("c")
            if e.attrib.get("volatile") == "yes":
                got.add("v")
            if got != quals:
                raise Mismatch("%s: qualifiers %s recorded as %s" % (path, sorted(quals), sorted(got)))
            return self.match(tt, e.attrib["type-id"], path + "/unqualified")
        if tag == "qualified-type-def":
            # a compiler may repeat, on an array element or a typedef use, a qualifier that the typedef itself already
            # carries at its top level (gcc: `td1 v[3]` with `typedef T *const td1` is an array of `const td1`): the same type
            got = set(q for q, a in (("c", "const"), ("v", "volatile")) if e.attrib.get(a) == "yes")
            if got and got <= self.top_quals(t):
                return self.match(t, e.attrib["type-id"], path + "/redundant-qualifier")
            raise Mismatch("%s: recorded with a qualifier (%s) the source does not have" % (path, dict(e.attrib)))
        if k == "b":
            if tag != "type-decl":
                raise Mismatch("%s: expected builtin %s, found <%s name=%s>" % (path, t[1], tag, e.attrib.get("name")))
            if canon_builtin(e.attrib.get("name", "")) != canon_builtin(t[1]):
                raise Mismatch("%s: builtin '%s' recorded as '%s'" % (path, t[1], e.attrib.get("name")))
            return
        if k == "void":
            if tag != "type-decl" or e.attrib.get("name") != "void":
                raise Mismatch("%s: expected void, found <%s name=%s>" % (path, tag, e.attrib.get("name")))
            return
        if k == "n":
            td = self.types[t[1]]
            cname = td.get("cname", td["name"])
            want = {"struct": "class-decl", "class": "class-decl", "union": "union-decl", "enum": "enum-decl",
                    "typedef": "typedef-decl", "opaque": "class-decl"}[td["kind"]]
            if tag != want:
                raise Mismatch("%s: expected %s %s, found <%s name=%s>" % (path, td["kind"], cname, tag, e.attrib.get("name")))
            if not name_eq(e.attrib.get("name"), cname):
                raise Mismatch("%s: expected %s '%s', found '%s'" % (path, td["kind"], cname, e.attrib.get("name")))
            if td["kind"] == "typedef":
                self.match(td["type"], e.attrib["type-id"], path + "/typedef " + cname)
            return
        if k in ("p", "r"):
            want = "pointer-type-def" if k == "p" else "reference-type-def"
            if tag != want:
                raise Mismatch("%s: expected %s, found <%s>" % (path, want, tag))
            if k == "r" and e.attrib.get("kind") != ("rvalue" if len(t) > 2 else "lvalue"):
                raise Mismatch("%s: %s reference recorded as kind='%s'" % (path, "rvalue" if len(t) > 2 else "lvalue",
                                                                         e.attrib.get("kind")))
            return self.match(t[1], e.attrib["type-id"], path + ("/*" if k == "p" else "/&"))
        if k == "a":
            dims = []
            tt = t
            while tt[0] == "a":
                dims.append(tt[2])
                tt = tt[1]
            if tag != "array-type-def":
                raise Mismatch("%s: expected array, found <%s>" % (path, tag))
            subs = [s for s in e if s.tag == "subrange"]
            got = [int(s.attrib["length"]) if s.attrib.get("length", "").isdigit() else s.attrib.get("length") for s in subs]
            if got != dims:
                raise Mismatch("%s: array dimensions %s recorded as %s" % (path, dims, got))
            return self.match(tt, e.attrib["type-id"], path + "/[]")
        if k == "fn":
            if tag != "function-type":
                raise Mismatch("%s: expected function type, found <%s>" % (path, tag))
            # in a function *type* the language drops top-level qualifiers of parameters and of the return type; where the
            # source spells one (possibly through a typedef) compilers record the stripped type: not asserted
            ret = None if self.top_quals(t[1]) and t[1][0] != "a" else t[1]
            return self.match_signature(ret, [None if self.top_quals(p) and p[0] != "a" else p for p in t[2]], t[3], e, path + "/fn")
        raise Mismatch("%s: unknown model type %r" % (path, t))

    def top_quals(self, t):
        out = set()
        while True:
            if t[0] in ("c", "v"):
                out.add(t[0])
                t = t[1]
            elif t[0] == "n" and self.types[t[1]]["kind"] == "typedef":
                t = self.types[t[1]]["type"]
            elif t[0] == "a":
                t = t[1]
            else:
                return out

    @staticmethod
    def _wrap(quals, t):
        for q in sorted(quals):
            t = [q, t]
        return t

    def match_signature(self, ret, params, variadic, e, path, skip_this=False):
        ps = [p for p in e if p.tag == "parameter"]
        if skip_this and ps and ps[0].attrib.get("is-artificial") == "yes":
            ps = ps[1:]
        var = bool(ps) and ps[-1].attrib.get("is-variadic") == "yes"
        if var:
            ps = ps[:-1]
        if var != bool(variadic):
            raise Mismatch("%s: variadic=%s recorded as %s" % (path, bool(variadic), var))
        if len(ps) != len(params):
            raise Mismatch("%s: %d parameters recorded as %d" % (path, len(params), len(ps)))
        for i, (pt, pe) in enumerate(zip(params, ps)):
            if pt is not None:
                self.match(pt, pe.attrib["type-id"], "%s/param%d" % (path, i + 1))
        rets = [r for r in e if r.tag == "return"]
        if len(rets) != 1:
            raise Mismatch("%s: %d <return> elements" % (path, len(rets)))
        if ret is not None:
            self.match(ret, rets[0].attrib["type-id"], path + "/return")
