"""ELF oracle: symbol tables as reported by readelf (binutils), independent of elfutils and of libabigail."""
import re, subprocess

_ROW = re.compile(r"^\s*(\d+):\s+([0-9a-fA-F]+)\s+(\d+|0x[0-9a-fA-F]+)\s+(\w+|<OS specific>: \d+|<processor specific>: \d+)\s+"
                  r"(\w+|<OS specific>: \d+)\s+(\w+)(?:\s+\[[^\]]*\])?\s+(\S+)(?:\s+(.*))?$")
_OS = {"<OS specific>: 10": "IFUNC"}      # STT_GNU_IFUNC when the file's EI_OSABI is not GNU (lld)
_OSB = {"<OS specific>: 10": "UNIQUE"}    # STB_GNU_UNIQUE


class Sym(dict):
    __getattr__ = dict.get


def read_symtabs(path):
    """{'.dynsym': [Sym...], '.symtab': [Sym...]}; Sym: name, version, default, value, size, type, bind, vis, ndx."""
    out = subprocess.run(["readelf", "-W", "-s", path], stdout=subprocess.PIPE, stderr=subprocess.DEVNULL).stdout.decode(errors="replace")
    tabs, cur = {}, None
    for l in out.split("\n"):
        m = re.match(r"^Symbol table '(\S+)' contains", l)
        if m:
            cur = tabs.setdefault(m.group(1), [])
            continue
        m = _ROW.match(l)
        if m and cur is not None:
            num, val, size, typ, bind, vis, ndx, name = m.groups()
            typ, bind = _OS.get(typ, typ), _OSB.get(bind, bind)
            name = (name or "").strip()
            # "name@@VER" / "name@VER" / "name@VER (2)"
            name = re.sub(r"\s+\(\d+\)$", "", name)
            ver, default = None, False
            if "@@" in name:
                name, ver = name.split("@@", 1)
                default = True
            elif "@" in name:
                name, ver = name.split("@", 1)
            cur.append(Sym(name=name, version=ver, default=default, value=int(val, 16),
                           size=int(size, 0), type=typ, bind=bind, vis=vis, ndx=ndx))
    return tabs


def elf_type(path):
    out = subprocess.run(["readelf", "-h", path], stdout=subprocess.PIPE, stderr=subprocess.DEVNULL).stdout.decode(errors="replace")
    m = re.search(r"Type:\s+(\w+)", out)
    return m.group(1) if m else None


def public_defined(syms, kinds=("FUNC", "IFUNC", "OBJECT", "TLS", "COMMON", "GNU_IFUNC")):
    """Defined, GLOBAL/WEAK (or GNU_UNIQUE), DEFAULT/PROTECTED visibility function and data symbols."""
    out = []
    for s in syms:
        if s.ndx == "UND" or not s.name:
            continue
        if s.ndx == "ABS" and s.type == "OBJECT":
            continue    # version-definition symbols (VERS_1 ...) the linker puts in .dynsym for a version script
        if s.bind not in ("GLOBAL", "WEAK", "UNIQUE"):
            continue
        if s.vis not in ("DEFAULT", "PROTECTED"):
            continue
        if s.type not in kinds and not (s.ndx == "COM"):
            continue
        out.append(s)
    return out


def relevant_table(path):
    """The symbol table libabigail documents as the one it reads: .dynsym for ET_DYN/ET_EXEC that have one... no:
    .symtab when present for ET_REL and ET_EXEC, .dynsym for shared objects (and PIEs)."""
    tabs = read_symtabs(path)
    et = elf_type(path)
    if et == "REL":
        return tabs.get(".symtab", [])
    if et == "DYN":
        return tabs.get(".dynsym", [])
    return tabs.get(".symtab") or tabs.get(".dynsym", [])


def elf_id(s):
    return s.name + (("@@" if s.default else "@") + s.version if s.version else "")


def dwarf_subprograms(path):
    """{name: [(n_formal_parameters, has_unspecified_parameters), ...]} for the DW_TAG_subprogram DIEs that carry
    DW_AT_external and are definitions (have DW_AT_low_pc), read with readelf (binutils): what the *compiler* recorded."""
    out = subprocess.run(["readelf", "--debug-dump=info", path], stdout=subprocess.PIPE, stderr=subprocess.DEVNULL).stdout.decode(errors="replace")
    res = {}
    cur = None     # [depth, name, external, lowpc, nparams, variadic]
    def flush():
        if cur and cur[1] and cur[2] and cur[3]:
            res.setdefault(cur[1], []).append((cur[4], cur[5]))
    for l in out.split("\n"):
        m = re.match(r"^\s*<(\d+)><[0-9a-f]+>: Abbrev Number: \d+ \((DW_TAG_\w+)\)", l)
        if m:
            depth, tag = int(m.group(1)), m.group(2)
            if cur and depth <= cur[0]:
                flush()
                cur = None
            if tag == "DW_TAG_subprogram" and cur is None:
                cur = [depth, None, False, False, 0, False]
            elif cur and depth == cur[0] + 1:
                if tag == "DW_TAG_formal_parameter":
                    cur[4] += 1
                elif tag == "DW_TAG_unspecified_parameters":
                    cur[5] = True
            cur_depth = depth
            in_sub = cur is not None and depth == cur[0]
            continue
        if cur and "in_sub" in dir() and in_sub:
            a = re.match(r"^\s*<[0-9a-f]+>\s+(DW_AT_\w+)\s*:\s*(.*)$", l)
            if a:
                at, val = a.group(1), a.group(2)
                if at == "DW_AT_name":
                    cur[1] = val.split("):")[-1].strip() if "):" in val else val.strip()
                elif at == "DW_AT_external":
                    cur[2] = True
                elif at == "DW_AT_low_pc":
                    cur[3] = True
    flush()
    return res
