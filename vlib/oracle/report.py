"""Parser for abidiff reports (default and leaf reporters)."""
import re

STATUS_ERROR, STATUS_USAGE, STATUS_CHANGE, STATUS_INCOMPAT = 1, 2, 4, 8

_F = r"(?: \((\d+) filtered out\))?"


def _w(word):
    return r"(\d+) " + word + _F


RE_FN_SUM = re.compile(r"^Functions changes summary: %s, %s, %s functions?$" % (_w("Removed"), _w("Changed"), _w("Added")))
RE_VAR_SUM = re.compile(r"^Variables changes summary: %s, %s, %s variables?$" % (_w("Removed"), _w("Changed"), _w("Added")))
RE_FSYM_SUM = re.compile(r"^Function symbols changes summary: %s, %s function symbols? not referenced by debug info$" % (_w("Removed"), _w("Added")))
RE_VSYM_SUM = re.compile(r"^Variable symbols changes summary: %s, %s variable symbols? not referenced by debug info$" % (_w("Removed"), _w("Added")))
RE_UNR_SUM = re.compile(r"^Unreachable types summary: %s, %s, %s types?$" % (_w("removed"), _w("changed"), _w("added")))
RE_LEAF_SUM = re.compile(r"^Leaf changes summary: (\d+) artifacts? changed" + _F + "$")
RE_LEAFT_SUM = re.compile(r"^Changed leaf types summary: (\d+)" + _F + " leaf types? changed$")
RE_LFN_SUM = re.compile(r"^Removed/Changed/Added functions summary: %s, %s, (\d+) Added functions?%s$" % (_w("Removed"), _w("Changed"), _F))
RE_LVAR_SUM = re.compile(r"^Removed/Changed/Added variables summary: %s, %s, (\d+) Added variables?%s$" % (_w("Removed"), _w("Changed"), _F))

SECTION_RES = [
    ("fn_removed", re.compile(r"^(\d+) Removed functions?:$")),
    ("fn_added", re.compile(r"^(\d+) Added functions?:$")),
    ("fn_changed", re.compile(r"^(\d+) functions? with some (?:indirect )?sub-type change:$")),
    ("var_removed", re.compile(r"^(\d+) Removed variables?:$")),
    ("var_added", re.compile(r"^(\d+) Added variables?:$")),
    ("var_changed", re.compile(r"^(\d+) Changed variables?:$")),
    ("fsym_removed", re.compile(r"^(\d+) Removed function symbols? not referenced by debug info:$")),
    ("fsym_added", re.compile(r"^(\d+) Added function symbols? not referenced by debug info:$")),
    ("vsym_removed", re.compile(r"^(\d+) Removed variable symbols? not referenced by debug info:$")),
    ("vsym_added", re.compile(r"^(\d+) Added variable symbols? not referenced by debug info:$")),
    ("unr_removed", re.compile(r"^(\d+) removed types? unreachable from any public interface:$")),
    ("unr_changed", re.compile(r"^(\d+) changed types? unreachable from any public interface:$")),
    ("unr_added", re.compile(r"^(\d+) added types? unreachable from any public interface:$")),
]
RE_ENTRY = re.compile(r"^  \[([DAC])\] (.*)$")


class ParseError(Exception):
    pass


def _i(x):
    return int(x) if x is not None else 0


class Report:
    def __init__(self):
        self.summary = {}      # key -> (net, filtered)
        self.sections = {}     # key -> {"count": n, "entries": [text...], "body": [[lines]...]}
        self.soname_changed = False
        self.arch_changed = False
        self.leaf = False
        self.leaf_types = []   # (header line, [body lines]) of  "'struct S at ...' changed:" blocks
        self.other = []
        self.notes = []        # "SONAME changed from 'a' to 'b'" / "architecture changed from ..." detail lines

    def net_total(self):
        return sum(v[0] for v in self.summary.values())

    def names(self, key):
        return [entry_name(e) for e in self.sections.get(key, {"entries": []})["entries"]]


def entry_name(text):
    """Identity of a [D]/[A]/[C] entry: (pretty repr, linkage-or-None)."""
    m = re.match(r"^'(.*?)'(?:\s+\{(.*?)\})?", text)
    if m and text.startswith("'"):
        # pretty representation may itself contain quotes only in odd cases; take up to the closing quote before
        # either end, ' {', ' at ', ' has ', ' was '
        m2 = re.match(r"^'(.*)'\s+\{([^}]*)\}\s*$", text)
        if m2:
            return (m2.group(1), m2.group(2))
        m3 = re.match(r"^'(.*?)'(?: at \S+)? (?:has some|was changed)", text)
        if m3:
            return (m3.group(1), None)
        m4 = re.match(r"^'(.*)'\s*$", text)
        if m4:
            return (m4.group(1), None)
        return (m.group(1), m.group(2))
    # symbol entries: "name" or "name@@VER", optionally followed by ", aliases a, b"
    t = text.split(",")[0].strip()
    return (t, None)


def parse(text):
    r = Report()
    lines = text.split("\n")
    i = 0
    n = len(lines)
    # summary block
    while i < n:
        l = lines[i]
        if l == "ELF SONAME changed":
            r.soname_changed = True
        elif l == "ELF architecture changed":
            r.arch_changed = True
        elif RE_FN_SUM.match(l):
            g = RE_FN_SUM.match(l).groups()
            r.summary["fn_removed"] = (_i(g[0]), _i(g[1]))
            r.summary["fn_changed"] = (_i(g[2]), _i(g[3]))
            r.summary["fn_added"] = (_i(g[4]), _i(g[5]))
        elif RE_VAR_SUM.match(l):
            g = RE_VAR_SUM.match(l).groups()
            r.summary["var_removed"] = (_i(g[0]), _i(g[1]))
            r.summary["var_changed"] = (_i(g[2]), _i(g[3]))
            r.summary["var_added"] = (_i(g[4]), _i(g[5]))
        elif RE_FSYM_SUM.match(l):
            g = RE_FSYM_SUM.match(l).groups()
            r.summary["fsym_removed"] = (_i(g[0]), _i(g[1]))
            r.summary["fsym_added"] = (_i(g[2]), _i(g[3]))
        elif RE_VSYM_SUM.match(l):
            g = RE_VSYM_SUM.match(l).groups()
            r.summary["vsym_removed"] = (_i(g[0]), _i(g[1]))
            r.summary["vsym_added"] = (_i(g[2]), _i(g[3]))
        elif RE_UNR_SUM.match(l):
            g = RE_UNR_SUM.match(l).groups()
            r.summary["unr_removed"] = (_i(g[0]), _i(g[1]))
            r.summary["unr_changed"] = (_i(g[2]), _i(g[3]))
            r.summary["unr_added"] = (_i(g[4]), _i(g[5]))
        elif RE_LEAF_SUM.match(l):
            r.leaf = True
            g = RE_LEAF_SUM.match(l).groups()
            r.summary["leaf_total"] = (_i(g[0]), _i(g[1]))
        elif RE_LEAFT_SUM.match(l):
            g = RE_LEAFT_SUM.match(l).groups()
            r.summary["leaf_types"] = (_i(g[0]), _i(g[1]))
        elif RE_LFN_SUM.match(l):
            g = RE_LFN_SUM.match(l).groups()
            r.summary["fn_removed"] = (_i(g[0]), _i(g[1]))
            r.summary["fn_changed"] = (_i(g[2]), _i(g[3]))
            r.summary["fn_added"] = (_i(g[4]), _i(g[5]))
        elif RE_LVAR_SUM.match(l):
            g = RE_LVAR_SUM.match(l).groups()
            r.summary["var_removed"] = (_i(g[0]), _i(g[1]))
            r.summary["var_changed"] = (_i(g[2]), _i(g[3]))
            r.summary["var_added"] = (_i(g[4]), _i(g[5]))
        elif l == "":
            pass
        else:
            break
        i += 1
    cur = None
    curentry = None
    while i < n:
        l = lines[i]
        i += 1
        matched = False
        if l and not l.startswith(" "):
            for key, rx in SECTION_RES:
                m = rx.match(l)
                if m:
                    if key in r.sections:
                        raise ParseError("duplicate section %s" % key)
                    cur = {"count": int(m.group(1)), "entries": [], "body": []}
                    r.sections[key] = cur
                    matched = True
                    curentry = None
                    break
            if matched:
                continue
            if l.startswith("'") and l.endswith(":") and r.leaf:
                cur = None
                curentry = []
                r.leaf_types.append((l, curentry))
                continue
            if l.startswith("'") and r.leaf:
                # "'struct T at v1.c:2:1' changed:" variants handled above; anything else goes to other
                pass
            if re.match(r"^(SONAME|architecture) changed from '.*' to '.*'$", l):
                r.notes.append(l)
                cur = None
                curentry = None
                continue
            r.other.append(l)
            cur = None
            curentry = None
            continue
        m = RE_ENTRY.match(l)
        if m and cur is not None:
            cur["entries"].append(m.group(2))
            curentry = []
            cur["body"].append(curentry)
            continue
        if l == "":
            continue
        if curentry is not None:
            curentry.append(l)
        else:
            r.other.append(l)
    return r


def status_bits_ok(rc):
    """C08 lattice: only documented bits, 8 => 4, 2 => 1."""
    if rc < 0 or rc > 15:
        return False
    if rc & STATUS_INCOMPAT and not rc & STATUS_CHANGE:
        return False
    if rc & STATUS_USAGE and not rc & STATUS_ERROR:
        return False
    return True
