"""Independent ABIXML reader (xml.etree / expat; nothing from libxml2 or libabigail)."""
import xml.etree.ElementTree as ET
import collections

TYPE_REF_ATTRS = ("type-id", "naming-typedef-id", "def-of-decl-id", "method-class-id")


class Malformed(Exception):
    pass


class Doc:
    def __init__(self, text):
        if isinstance(text, str):
            text = text.encode("utf-8", "surrogateescape")
        try:
            self.root = ET.fromstring(text)
        except ET.ParseError as e:
            raise Malformed(str(e))
        self.ids = collections.defaultdict(list)      # id -> [elements]
        self.refs = []                                # (attr, value, element)
        self.parent = {}
        for el in self.root.iter():
            for ch in el:
                self.parent[ch] = el
            if "id" in el.attrib and el.tag != "elf-symbol":
                self.ids[el.attrib["id"]].append(el)
            for a in TYPE_REF_ATTRS:
                if a in el.attrib:
                    self.refs.append((a, el.attrib[a], el))
        self.fn_syms = self._syms("elf-function-symbols")
        self.var_syms = self._syms("elf-variable-symbols")

    def corpora(self):
        if self.root.tag == "abi-corpus-group":
            return [c for c in self.root if c.tag == "abi-corpus"]
        return [self.root]

    def _syms(self, tag):
        out = []
        for sec in self.root.iter(tag):
            for s in sec:
                if s.tag == "elf-symbol":
                    out.append(dict(s.attrib))
        return out

    # ---- referential integrity
    def dangling_type_refs(self):
        return [(a, v) for a, v, el in self.refs if v not in self.ids]

    def duplicate_ids(self):
        """ids defined more than once.  A declaration-only class and repeated emission of the *same* element
        (identical attributes) are still duplicates: the property says 'defined exactly once'."""
        return {i: els for i, els in self.ids.items() if len(els) > 1}

    def symbol_ids(self):
        """The set of strings an elf-symbol-id may take: name, name@version, name@@version."""
        out = set()
        for s in self.fn_syms + self.var_syms:
            out.add(sym_id(s))
        return out

    def decls(self, tag):
        """Top-level (namespace-level) function-decl / var-decl elements, i.e. not class members."""
        out = []
        for el in self.root.iter(tag):
            p = self.parent.get(el)
            if p is not None and p.tag in ("data-member", "member-function", "member-template", "function-template-decl"):
                continue
            out.append(el)
        return out

    def all_decls_with_symbol(self):
        return [el for el in self.root.iter() if "elf-symbol-id" in el.attrib]

    def type(self, tid):
        els = self.ids.get(tid)
        return els[0] if els else None


def sym_id(s):
    n = s["name"]
    v = s.get("version")
    if v:
        return n + ("@@" if s.get("is-default-version") == "yes" else "@") + v
    return n
