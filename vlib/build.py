"""Out-of-tree builds of the repository's *current working tree*.

Every check calls ensure(variant) first.  Nothing is taken from /repo's own
.o/.libs: sources are compiled from $VERIF_REPO (default /repo) into
/verif/build/<variant>/ through ccache.  A content fingerprint of all sources,
headers and flags makes the call a no-op when nothing changed.
"""
import hashlib, os, subprocess, sys, fcntl, shutil, time, glob
from concurrent.futures import ThreadPoolExecutor

VERIF = os.path.dirname(os.path.dirname(os.path.abspath(__file__)))
REPO = os.environ.get("VERIF_REPO", "/repo")
BUILD = os.environ.get("VERIF_BUILD", os.path.join(VERIF, "build"))
GUARD = "LIBABIGAIL_VERIF"

TOOLS = ["abidiff", "abidw", "abilint", "abicompat", "abipkgdiff", "abisym", "kmidiff"]
LIBS = ["-lxml2", "-lelf", "-ldw", "-lpthread"]


def _base_inc(repo):
    return ["-I" + os.path.join(BUILD, "gen"), "-I" + os.path.join(BUILD, "gen", "include"), "-I" + repo, "-I" + repo + "/include",
            "-I" + repo + "/src", "-I" + repo + "/tools", "-I/usr/include/libxml2",
            "-DHAVE_CONFIG_H", '-DABIGAIL_ROOT_SYSTEM_LIBDIR="/usr/lib"', "-D" + GUARD]


VARIANTS = {
    "plain": dict(cxx="g++", flags=["-std=c++11", "-O1", "-g1"], ld=[]),
    "dbgtc": dict(cxx="g++", flags=["-std=c++11", "-O1", "-g1",
                                    "-DWITH_DEBUG_TYPE_CANONICALIZATION",
                                    "-DWITH_DEBUG_SELF_COMPARISON"], ld=[], tools=["abidw"]),
    "asan": dict(cxx="clang++",
                 flags=["-std=c++11", "-O1", "-g", "-fno-omit-frame-pointer",
                        "-fsanitize=address,undefined,fuzzer-no-link",
                        "-fno-sanitize-recover=undefined", "-fno-sanitize=vptr",
                        "-include", os.path.join(VERIF, "cxx", "verif_assert.h")],
                 ld=["-fsanitize=address,undefined"]),
    "tsan": dict(cxx="clang++",
                 flags=["-std=c++11", "-O1", "-g", "-fsanitize=thread"],
                 ld=["-fsanitize=thread"], tools=["abipkgdiff"]),
}


def _sha(paths, extra=""):
    h = hashlib.sha1(extra.encode())
    for p in sorted(paths):
        h.update(p.encode())
        try:
            with open(p, "rb") as f:
                h.update(f.read())
        except OSError:
            h.update(b"<missing>")
    return h.hexdigest()


def repo_sources(repo=None):
    repo = repo or REPO
    srcs = sorted(p for p in glob.glob(repo + "/src/abg-*.cc") if not p.endswith("abg-ctf-reader.cc"))
    hdrs = sorted(glob.glob(repo + "/src/*.h") + glob.glob(repo + "/include/*.h") + glob.glob(repo + "/tools/*.h")
                  + [repo + "/config.h"])
    return srcs, hdrs


def _ensure_generated(repo):
    """config.h / abg-version.h are git-ignored products of ./configure; if a
    restore dropped them, fall back to the copies kept in /verif/cxx/fallback."""
    gen = os.path.join(BUILD, "gen")
    os.makedirs(os.path.join(gen, "include"), exist_ok=True)
    for rel in ("config.h", "include/abg-version.h"):
        dst = os.path.join(gen, rel)
        if os.path.exists(os.path.join(repo, rel)):
            if os.path.exists(dst):
                os.unlink(dst)
        else:
            shutil.copy(os.path.join(VERIF, "cxx", "fallback", os.path.basename(rel)), dst)


def _run(cmd, env=None):
    r = subprocess.run(cmd, stdout=subprocess.PIPE, stderr=subprocess.STDOUT, env=env)
    return r.returncode, r.stdout.decode(errors="replace")


def _cc_env():
    env = dict(os.environ)
    env["CCACHE_DIR"] = os.path.join(BUILD, "ccache")
    env["CCACHE_MAXSIZE"] = "4G"
    env.setdefault("CCACHE_COMPILERCHECK", "content")
    return env


_CCACHE = shutil.which("ccache")


def compile_many(jobs, nproc=16):
    """jobs: list of (cxx, flags, src, obj).  Returns list of error strings."""
    env = _cc_env()

    def one(j):
        cxx, flags, src, obj = j
        cmd = ([_CCACHE] if _CCACHE else []) + [cxx] + flags + ["-c", src, "-o", obj]
        rc, out = _run(cmd, env)
        if rc != 0 and _CCACHE:
            rc, out = _run([cxx] + flags + ["-c", src, "-o", obj], env)
        return None if rc == 0 else "compile failed: %s\n%s" % (" ".join(cmd), out[-4000:])

    with ThreadPoolExecutor(nproc) as ex:
        return [e for e in ex.map(one, jobs) if e]


class BuildError(Exception):
    pass


def ensure(variant, repo=None, quiet=False):
    """Build libabigail.a and the tools of `variant` from the working tree.
    Returns the variant's directory."""
    repo = repo or REPO
    v = VARIANTS[variant]
    vdir = os.path.join(BUILD, variant)
    os.makedirs(os.path.join(vdir, "obj"), exist_ok=True)
    os.makedirs(os.path.join(vdir, "bin"), exist_ok=True)
    os.makedirs(os.path.join(BUILD, "ccache"), exist_ok=True)
    lock = open(os.path.join(vdir, ".lock"), "w")
    fcntl.flock(lock, fcntl.LOCK_EX)
    try:
        _ensure_generated(repo)
        srcs, hdrs = repo_sources(repo)
        tools = v.get("tools", TOOLS)
        tool_srcs = [repo + "/tools/%s.cc" % t for t in tools]
        flags = v["flags"] + _base_inc(repo)
        extra_dep = [os.path.join(VERIF, "cxx", "verif_assert.h")] if variant == "asan" else []
        fp = _sha(srcs + hdrs + tool_srcs + extra_dep, repr((v["cxx"], flags, v["ld"], tools)))
        stamp = os.path.join(vdir, "stamp")
        if os.path.exists(stamp) and open(stamp).read() == fp and \
                all(os.path.exists(os.path.join(vdir, "bin", t)) for t in tools):
            return vdir
        t0 = time.time()
        if os.path.exists(stamp):
            os.unlink(stamp)
        jobs = []
        objs = []
        for s in srcs:
            o = os.path.join(vdir, "obj", os.path.basename(s)[:-3] + ".o")
            objs.append(o)
            jobs.append((v["cxx"], flags, s, o))
        tobjs = {}
        for t, s in zip(tools, tool_srcs):
            o = os.path.join(vdir, "obj", "tool-" + t + ".o")
            tobjs[t] = o
            jobs.append((v["cxx"], flags, s, o))
        # largest TUs first
        jobs.sort(key=lambda j: -os.path.getsize(j[2]))
        errs = compile_many(jobs)
        if errs:
            raise BuildError("\n".join(errs))
        lib = os.path.join(vdir, "libabigail.a")
        if os.path.exists(lib):
            os.unlink(lib)
        rc, out = _run(["ar", "rcs", lib] + objs)
        if rc:
            raise BuildError(out)
        for t in tools:
            rc, out = _run([v["cxx"]] + v["ld"] + [tobjs[t], lib] + LIBS + ["-o", os.path.join(vdir, "bin", t)])
            if rc:
                raise BuildError(out)
        open(stamp, "w").write(fp)
        if not quiet:
            sys.stderr.write("[build] %s rebuilt from %s in %.1fs\n" % (variant, repo, time.time() - t0))
        return vdir
    finally:
        fcntl.flock(lock, fcntl.LOCK_UN)
        lock.close()


def lib_flags(variant, repo=None):
    """(cxx, compile flags, link flags) for building a harness against a variant."""
    repo = repo or REPO
    v = VARIANTS[variant]
    return v["cxx"], v["flags"] + _base_inc(repo), v["ld"], os.path.join(BUILD, variant, "libabigail.a")


def ensure_harness(name, variant, sources, extra_flags=(), extra_ld=(), repo=None, std="-std=gnu++17"):
    """Build /verif/cxx harness `name` against libabigail.a of `variant`."""
    repo = repo or REPO
    vdir = ensure(variant, repo)
    cxx, flags, ld, lib = lib_flags(variant, repo)
    flags = [f for f in flags if f != "-std=c++11"] + [std] + list(extra_flags)
    srcs = [os.path.join(VERIF, "cxx", s) for s in sources]
    out = os.path.join(vdir, "bin", name)
    deps = srcs + glob.glob(os.path.join(VERIF, "cxx", "*.h")) + [lib]
    fp = _sha(deps, repr((cxx, flags, ld, extra_ld)))
    stamp = os.path.join(vdir, "stamp-" + name)
    lock = open(os.path.join(vdir, ".lock-" + name), "w")
    fcntl.flock(lock, fcntl.LOCK_EX)
    try:
        if os.path.exists(stamp) and open(stamp).read() == fp and os.path.exists(out):
            return out
        objs = []
        jobs = []
        for s in srcs:
            o = os.path.join(vdir, "obj", "h-%s-%s.o" % (name, os.path.basename(s)))
            objs.append(o)
            jobs.append((cxx, flags, s, o))
        errs = compile_many(jobs)
        if errs:
            raise BuildError("\n".join(errs))
        rc, o = _run([cxx] + ld + objs + [lib] + LIBS + list(extra_ld) + ["-o", out])
        if rc:
            raise BuildError(o)
        open(stamp, "w").write(fp)
        return out
    finally:
        fcntl.flock(lock, fcntl.LOCK_UN)
        lock.close()


if __name__ == "__main__":
    vs = sys.argv[1:] or list(VARIANTS)
    t0 = time.time()
    with ThreadPoolExecutor(len(vs)) as ex:
        for v, d in zip(vs, ex.map(lambda x: ensure(x), vs)):
            print(v, d)
    print("built in %.1fs" % (time.time() - t0))
