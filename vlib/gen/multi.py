"""Pairs (P, P') that differ by several changes of mixed kinds (breaking, harmless, added / removed interfaces,
symbol-level changes, interfaces that live in translation units without debug info).  Used by the properties that
speak about *reports* (C08, C10, C11, C12, C13): the point is to get reports with several non-empty sections."""
import copy
from hypothesis import strategies as st
from . import model as M, mutate as MU
from .strategies import _pick, _weighted, library, build_config, paramtype, rettype, texpr


def _fresh(m, stem):
    names = set(i["name"] for k, i in M.interfaces(m))
    j = 0
    while "%s%d" % (stem, j) in names:
        j += 1
    return "%s%d" % (stem, j)


def add_interface(draw, m, what=None, version=False):
    m2 = copy.deepcopy(m)
    cx = MU._ctx_for(m2)
    ntu = M.ntus(m2)
    what = what or _pick(draw, ["fn", "fn", "var"])
    if what == "fn":
        name = _fresh(m2, _pick(draw, ["addfn", "zfn", "gfn"]))     # sorts before / after / between the fnN names
        f = {"name": name, "ret": rettype(draw, cx),
             "params": [{"name": "p%d" % i, "type": paramtype(draw, cx)} for i in range(draw(st.integers(0, 3)))],
             "variadic": False, "tu": draw(st.integers(0, ntu - 1)), "body": 1}
        if m2["lang"] == "cxx":
            f["extern_c"] = False
        m2["funcs"].append(f)
    else:
        name = _fresh(m2, _pick(draw, ["addvar", "zvar", "vaq"]))
        m2["vars"].append({"name": name, "type": texpr(draw, cx, 0, allow_array=True), "tu": draw(st.integers(0, ntu - 1))})
    if version and draw(st.booleans()) and (m2["lang"] == "c" or what == "var"):
        (m2["funcs"] if what == "fn" else m2["vars"])[-1]["version"] = _pick(draw, ["VERS_1", "VERS_2"])
    return m2, {"kind": "add_" + what, "added": [name], "removed": [], "affected": []}


def symbol_level(draw, m):
    """weak<->global, add / remove an alias, change / add / drop a symbol version (C only)."""
    m2 = copy.deepcopy(m)
    ifs = [(k, i) for k, i in M.exported(m2) if m2["lang"] == "c" or i.get("extern_c") or k == "var"]
    if not ifs:
        return None, None
    k, i = _pick(draw, ifs)
    kind = _pick(draw, ["toggle_weak", "add_alias", "remove_alias", "reversion", "alias_takeover"])
    info = {"kind": "sym_" + kind, "iface": i["name"], "removed": [], "added": [], "affected": []}
    if kind == "toggle_weak":
        i["weak"] = not i.get("weak", False)
    elif kind == "add_alias":
        if i.get("weak") or i.get("vis", "default") == "hidden":
            return None, None
        n = "%s_nal%d" % (i["name"], len(i.get("aliases", [])))
        i.setdefault("aliases", []).append({"name": n, "weak": False})
        info["added"] = [n]
    elif kind == "remove_alias":
        if not i.get("aliases"):
            return None, None
        al = i["aliases"].pop()
        info["removed"] = [al["name"]]
    elif kind == "alias_takeover":
        # the defining name goes away, its former alias name lives on as a definition of its own (compat symbol)
        if not i.get("aliases"):
            return None, None
        al = i["aliases"][0]["name"]
        lst = m2["funcs"] if k == "fn" else m2["vars"]
        lst.remove(i)
        j = copy.deepcopy(i)
        j["name"] = al
        j["aliases"] = i["aliases"][1:]
        j.pop("version", None)
        if draw(st.booleans()):
            if k == "fn":
                j["params"] = j["params"] + [{"name": "extra", "type": ["b", "int"]}]
            else:
                j["type"] = ["b", "long"] if j["type"] != ["b", "long"] else ["b", "int"]
        lst.append(j)
        info["removed"] = [i["name"]]
    else:
        if i.get("vis", "default") != "default":
            return None, None
        old = i.get("version")
        new = _pick(draw, [v for v in (None, "VERS_1", "VERS_2") if v != old])
        if new:
            i["version"] = new
        else:
            i.pop("version", None)
        info["old_version"], info["new_version"] = old, new
    return m2, info


KINDS = [("breaking", 40), ("add", 20), ("harmless", 12), ("symbol", 12), ("remove", 16)]


def mutate_many(draw, m, lo=1, hi=5, kinds=None, version=False):
    infos = []
    cur = m
    n = draw(st.integers(lo, hi))
    for _ in range(n):
        k = _weighted(draw, kinds or KINDS)
        if k == "breaking":
            m2, info = MU.breaking(draw, cur)
        elif k == "remove":
            m2, info = MU.breaking(draw, cur, only=["remove_fn", "remove_var"])
        elif k == "add":
            m2, info = add_interface(draw, cur, version=version)
        elif k == "harmless":
            m2, info = MU.harmless(draw, cur)
        else:
            m2, info = symbol_level(draw, cur)
        if m2 is None:
            continue
        info.setdefault("added", [])
        infos.append(info)
        cur = m2
    return cur, infos


def _sonames(draw):
    """None (no DT_SONAME), or the SONAMEs of the two builds (equal or different)."""
    c = draw(st.integers(0, 9))
    if c >= 3:
        return None
    return ["libgen.so.1", "libgen.so.1"] if c == 0 else ["libgen.so.1", "libgen.so.2"]


SYMONLY_KINDS = [("add", 40), ("remove", 40), ("symbol", 20)]


@st.composite
def multi_pair(draw, tier="quick", lang="any", lo=1, hi=5, nodebug=True, kinds=None, symfeatures=True, tu_private=20,
               symonly_pct=0):
    big = tier == "thorough"
    symonly = draw(st.integers(0, 99)) < symonly_pct
    if symonly:
        # symbols-only flavour: no debug info at all, versioned symbols, additions / removals / symbol-level changes
        m = draw(library(lang="c", max_types=3, min_funcs=3, max_funcs=8, max_vars=4, symfeatures=True, versions="yes"))
        cfg = draw(build_config())
        m2, infos = mutate_many(draw, m, max(lo, 2), hi + 2, SYMONLY_KINDS, version=True)
        return {"model": m, "cfg": cfg, "mutant": m2, "infos": infos, "nodebug": list(range(max(M.ntus(m), M.ntus(m2)))),
                "sonames": _sonames(draw)}
    m = draw(library(lang=lang, max_types=10 if big else 7, min_funcs=2, max_funcs=7, max_vars=3, symfeatures=symfeatures,
                     tu_private=tu_private))
    cfg = draw(build_config())
    m2, infos = mutate_many(draw, m, lo, hi, kinds, version=symfeatures)
    nd = []
    if nodebug and M.ntus(m) >= 2 and draw(st.integers(0, 3)) == 0:
        # one translation unit of both builds is compiled without -g: its interfaces show up as symbols not referenced by
        # debug info
        nd = [draw(st.integers(0, M.ntus(m) - 1))]
    return {"model": m, "cfg": cfg, "mutant": m2, "infos": infos, "nodebug": nd, "sonames": _sonames(draw)}
