"""Hypothesis strategies producing program models (see model.py)."""
from hypothesis import strategies as st
from . import model as M

INTS_FOR_BITS = ["unsigned int", "int", "unsigned char", "unsigned short", "unsigned long", "long", "_Bool", "short"]


def _pick(draw, seq):
    return seq[draw(st.integers(0, len(seq) - 1))]


def _weighted(draw, pairs):
    tot = sum(w for _, w in pairs)
    x = draw(st.integers(0, tot - 1))
    for v, w in pairs:
        if x < w:
            return v
        x -= w
    return pairs[-1][0]


class Ctx:
    def __init__(self, kinds, names, cxx):
        self.kinds = kinds
        self.names = names
        self.cxx = cxx
        self.defined = 0  # types [0, defined) are complete

    def byvalue(self):
        return [self.names[i] for i in range(self.defined) if self.kinds[i] not in ("opaque", "private")]

    def pointees(self):
        return [self.names[i] for i in range(len(self.kinds)) if self.kinds[i] in ("struct", "union", "opaque", "class")] \
            + [self.names[i] for i in range(self.defined) if self.kinds[i] in ("enum", "typedef")]


def texpr(draw, cx, depth=0, allow_array=False, allow_cv=True, allow_ref=False):
    """A complete object type usable by value."""
    opts = [("b", 40)]
    if cx.byvalue():
        opts.append(("n", 30))
    if depth < 3:
        opts.append(("p", 22))
        if allow_cv:
            opts.append(("cv", 6))
        if allow_array:
            opts.append(("a", 8))
        opts.append(("fp", 5))
        if allow_ref and cx.cxx:
            opts.append(("r", 8))
    k = _weighted(draw, opts)
    if k == "b":
        return ["b", _pick(draw, M.BUILTINS)]
    if k == "n":
        return ["n", _pick(draw, cx.byvalue())]
    if k == "p":
        return ["p", pointee(draw, cx, depth + 1)]
    if k == "r":
        t = pointee(draw, cx, depth + 1, allow_void=False)
        # a third of the references are rvalue references (T&&): `T&` and `T&&` of one T are different types
        return ["r", t, "rvalue"] if draw(st.integers(0, 2)) == 0 else ["r", t]
    if k == "cv":
        q = _pick(draw, ["c", "c", "v"])
        sub = texpr(draw, cx, depth + 1, allow_array=False, allow_cv=False)
        return [q, sub]
    if k == "a":
        n = draw(st.integers(1, 5))
        sub = texpr(draw, cx, depth + 1, allow_array=(depth < 1), allow_cv=False)
        return ["a", sub, n]
    if k == "fp":
        return ["p", fntype(draw, cx, depth + 1)]
    raise AssertionError(k)


def pointee(draw, cx, depth, allow_void=True):
    opts = [("b", 25)]
    if allow_void:
        opts.append(("void", 10))
    if cx.pointees():
        opts.append(("n", 45))
    if depth < 3:
        opts.append(("t", 12))
        opts.append(("c", 10))
    k = _weighted(draw, opts)
    if k == "b":
        return ["b", _pick(draw, M.BUILTINS)]
    if k == "void":
        return ["void"]
    if k == "n":
        return ["n", _pick(draw, cx.pointees())]
    if k == "c":
        sub = pointee(draw, cx, depth + 1, allow_void)
        if sub[0] in ("c", "v", "fn", "a"):
            return sub
        return ["c", sub]
    return texpr(draw, cx, depth + 1, allow_array=False)


def fntype(draw, cx, depth):
    ret = rettype(draw, cx, depth)
    n = draw(st.integers(0, 3))
    ps = [paramtype(draw, cx, depth) for _ in range(n)]
    variadic = bool(ps) and draw(st.integers(0, 9)) == 0
    return ["fn", ret, ps, variadic]


def rettype(draw, cx, depth=0):
    if draw(st.integers(0, 3)) == 0:
        return ["void"]
    return texpr(draw, cx, depth + 1, allow_array=False, allow_cv=False, allow_ref=(depth == 0))


def paramtype(draw, cx, depth=0):
    return texpr(draw, cx, depth + 1, allow_array=False, allow_cv=(depth == 0), allow_ref=(depth == 0))


def members(draw, cx, prefix, lo=1, hi=6, depth=0, allow_bits=True, is_union=False):
    n = draw(st.integers(lo, hi))
    ms = []
    for i in range(n):
        name = "%sm%d" % (prefix, i)
        c = draw(st.integers(0, 19))
        if c == 0 and depth < 2:
            ms.append({"anon": _pick(draw, ["struct", "union"]),
                       "members": members(draw, cx, name + "_", 1, 3, depth + 1, allow_bits, False)})
        elif c in (1, 2, 3) and allow_bits and not is_union:
            bt = _pick(draw, INTS_FOR_BITS)
            maxw = 1 if bt == "_Bool" else min(31, M.BUILTIN_SIZE[bt] * 8)
            ms.append({"name": name, "type": ["b", bt], "bits": draw(st.integers(1, maxw))})
        else:
            ms.append({"name": name, "type": texpr(draw, cx, 0, allow_array=True), "bits": None})
    return ms


def enumerators(draw, ename):
    n = draw(st.integers(1, 6))
    es = []
    mode = draw(st.integers(0, 11))
    big = mode == 0
    u32 = mode == 1      # all values non-negative, some in [2^31, 2^32): the underlying type is unsigned int
    for i in range(n):
        c = draw(st.integers(0, 6))
        if c == 6 and es and es[-1][1] is not None:
            v = es[-1][1]   # duplicate value (two enumerators with the same value)
        elif c <= 2 or c == 6:
            v = None
        elif c <= 4:
            v = draw(st.integers(0 if u32 else -1000, 100000))
        elif u32:
            v = _pick(draw, [2 ** 31, 2 ** 32 - 1, draw(st.integers(2 ** 31, 2 ** 32 - 2))])
        else:
            v = draw(st.integers(2 ** 31, 2 ** 40)) if big else draw(st.integers(0, 255))
        es.append([("%s_E%d" % (ename.upper(), i)), v])
    return es


KIND_W = [("struct", 50), ("union", 10), ("enum", 15), ("typedef", 20), ("opaque", 5)]
KIND_W_CXX = [("struct", 30), ("class", 30), ("union", 8), ("enum", 12), ("typedef", 15), ("opaque", 5)]


def _strip_top_const(t):
    while t[0] in ("c", "v"):
        t = t[1]
    if t[0] == "a":
        return ["a", _strip_top_const(t[1]), t[2]]
    return t


def klass(draw, cx, name, earlier):
    """A C++ class: data members with access specifiers, 0-2 (possibly virtual) bases among the earlier complete
    structs/classes, 0-3 member functions (virtual or not, defined out of line), optionally a static data member."""
    ms = members(draw, cx, "", 0, 5, 0, True, False)
    for mm in ms:
        mm["access"] = _pick(draw, ["public", "public", "protected", "private"])
        if "anon" in mm:
            for x in M._members_flat(mm["members"]):
                x["type"] = _strip_top_const(x["type"])
        else:
            mm["type"] = _strip_top_const(mm["type"])
    ms.sort(key=lambda mm: 0)  # keep declaration order; access labels are emitted on change
    t = {"kind": "class", "name": name, "members": ms, "bases": [], "methods": []}
    cands = [e["name"] for e in earlier if e["kind"] in ("struct", "class") and not any(
        mm.get("bits") is None and "anon" not in mm and M.strip_cv(mm["type"]) != mm["type"] for mm in e["members"])]
    nb = _weighted(draw, [(0, 5), (1, 4), (2, 1)])
    for b in sorted(set(_pick(draw, cands) for _ in range(nb))) if cands else []:
        t["bases"].append({"name": b, "virtual": draw(st.integers(0, 4)) == 0,
                           "access": _pick(draw, ["public", "public", "protected", "private"])})
    for j in range(draw(st.integers(0, 3))):
        t["methods"].append({"name": "me%d" % j, "ret": rettype(draw, cx, 1),
                             "params": [{"name": "a%d" % q, "type": paramtype(draw, cx, 1)} for q in range(draw(st.integers(0, 2)))],
                             "virtual": draw(st.integers(0, 2)) == 0, "access": _pick(draw, ["public", "public", "protected", "private"]),
                             "const": draw(st.integers(0, 3)) == 0})
    if draw(st.integers(0, 5)) == 0:
        ms.append({"name": "sm0", "type": ["b", _pick(draw, ["int", "long", "char"])], "bits": None, "static": True,
                   "access": "public"})
    return t


@st.composite
def library(draw, lang="c", min_types=1, max_types=8, min_funcs=1, max_funcs=6, max_vars=3, max_tus=3,
            symfeatures=False, statics=True, kind_w=None, tu_private=0, versions="maybe", tdanon=0, named_inline=0):
    if lang == "any":
        lang = _pick(draw, ["c", "c", "cxx"])
    cxx = lang == "cxx"
    nt = draw(st.integers(min_types, max_types))
    kinds = [_weighted(draw, kind_w or (KIND_W_CXX if cxx else KIND_W)) for _ in range(nt)]
    pre = {"struct": "st", "union": "un", "enum": "en", "typedef": "td", "opaque": "op", "class": "cl"}
    names = ["%s%d" % (pre[k], i) for i, k in enumerate(kinds)]
    tpl = {}
    if cxx:
        # some structs are explicit specialisations of a class template: the type is called "tpN<arg>"
        for i, k in enumerate(kinds):
            if k == "struct" and draw(st.integers(0, 5)) == 0:
                arg = _pick(draw, ["int", "char", "unsigned long", "double"])
                tpl[i] = arg
                names[i] = "tp%d<%s>" % (i, arg)
    cx = Ctx(kinds, names, cxx)
    types = []
    for i, k in enumerate(kinds):
        cx.defined = i
        nm = names[i]
        if k in ("struct", "union"):
            t = {"kind": k, "name": nm, "members": members(draw, cx, "", 1, 6, 0, True, k == "union")}
            if i in tpl:
                t["tpl"] = tpl[i]
        elif k == "class":
            t = klass(draw, cx, nm, types)
        elif k == "enum":
            t = {"kind": "enum", "name": nm, "enumerators": enumerators(draw, nm)}
        elif k == "typedef":
            t = {"kind": "typedef", "name": nm, "type": texpr(draw, cx, 0, allow_array=False)}
        else:
            t = {"kind": "opaque", "name": nm}
        types.append(t)
    cx.defined = nt
    ntu = draw(st.integers(1, max_tus))
    nf = draw(st.integers(min_funcs, max_funcs))
    funcs = []
    for i in range(nf):
        np_ = draw(st.integers(0, 4))
        f = {"name": "fn%d" % i, "ret": rettype(draw, cx),
             "params": [{"name": "p%d" % j, "type": paramtype(draw, cx)} for j in range(np_)],
             "variadic": False, "tu": draw(st.integers(0, ntu - 1)), "body": draw(st.integers(0, 5))}
        if np_ and draw(st.integers(0, 11)) == 0:
            f["variadic"] = True
        funcs.append(f)
    nv = draw(st.integers(0, max_vars))
    vars_ = []
    for i in range(nv):
        vars_.append({"name": "var%d" % i, "type": texpr(draw, cx, 0, allow_array=True),
                      "tu": draw(st.integers(0, ntu - 1))})
    if cxx and draw(st.integers(0, 2)) == 0:
        # an lvalue and an rvalue reference to the same type in one library (two different types that differ in nothing
        # but the reference kind)
        base = ["n", _pick(draw, cx.byvalue())] if cx.byvalue() and draw(st.booleans()) else ["b", _pick(draw, M.BUILTINS)]
        if draw(st.integers(0, 3)) == 0:
            base = ["c", base]
        funcs.append({"name": "fn%d" % nf, "ret": ["void"], "params": [{"name": "p0", "type": ["r", base]},
                                                                      {"name": "p1", "type": ["r", base, "rvalue"]}],
                      "variadic": False, "tu": draw(st.integers(0, ntu - 1)), "body": 0})
    m = {"lang": lang, "types": types, "funcs": funcs, "vars": vars_, "statics": []}
    if cxx:
        for f in funcs:
            f["extern_c"] = False
    if statics:
        ns = draw(st.integers(0, 2))
        for i in range(ns):
            if draw(st.booleans()):
                m["statics"].append({"name": "sfn%d" % i, "ret": rettype(draw, cx),
                                     "params": [{"name": "p0", "type": paramtype(draw, cx)}],
                                     "variadic": False, "tu": draw(st.integers(0, ntu - 1)), "static": True,
                                     "body": draw(st.integers(0, 5))})
            else:
                m["statics"].append({"name": "svar%d" % i, "type": texpr(draw, cx, 0, allow_array=True),
                                     "tu": draw(st.integers(0, ntu - 1)), "static": True})
    for s_ in m["statics"]:
        sanitize_static(m, s_)
    if named_inline and not cxx and draw(st.integers(0, 99)) < named_inline:
        add_named_inline_members(draw, m)
    if tdanon and draw(st.integers(0, 99)) < tdanon:
        add_typedefed_anonymous(draw, m, ntu)
    if tu_private and lang == "c" and ntu >= 2 and draw(st.integers(0, 99)) < tu_private:
        add_tu_private_types(draw, m, ntu, cx)
    if symfeatures:
        add_symbol_features(draw, m, versions)
    return m


def no_class_by_value(m, t):
    """C++: a static (unexported) function or variable must not hold, take or return a class *by value* -- that instantiates
    implicit constructors / copy constructors, which are weak *exported* symbols, so adding or removing such a static would not
    be ABI-neutral.  By-value class types (also as array elements) are replaced by pointers to them."""
    idx = M.type_index(m)
    core = M.strip_cv(t)
    if core[0] == "a":
        return ["p", no_class_by_value(m, core[1])] if no_class_by_value(m, core[1]) != core[1] else t
    if core[0] == "n":
        k = idx.get(core[1], {}).get("kind")
        if k in ("struct", "class", "union"):
            return ["p", core]
        if k == "typedef":
            return ["p", core] if no_class_by_value(m, idx[core[1]]["type"]) != idx[core[1]]["type"] else t
    return t


def sanitize_static(m, s_):
    if m["lang"] != "cxx":
        return s_
    if "params" in s_:
        s_["ret"] = no_class_by_value(m, s_["ret"])
        for p_ in s_["params"]:
            p_["type"] = no_class_by_value(m, p_["type"])
    else:
        s_["type"] = no_class_by_value(m, s_["type"])
    return s_


def add_named_inline_members(draw, m):
    """Named members whose type is an anonymous struct written in place, cv-qualified or not, in pairs of *different* structs
    of the same size (`const struct { int w; int h; } dims;` / `const struct { float g; short l; short r; } mix;`), placed in
    one or two structs that exported interfaces reach."""
    reach = M.reachable_types(m)
    aggs = [t for t in m["types"] if t["kind"] == "struct" and t["name"] in reach and not t.get("tpl") and not t.get("cname")]
    shapes = [[("w", "int"), ("h", "int")], [("g", "float"), ("l", "short"), ("r", "short")], [("d", "double")],
              [("a", "unsigned int"), ("b", "float")], [("p", "long")], [("c0", "char"), ("c1", "char"), ("s", "short"), ("i", "int")]]
    # two dedicated host structs, each used by a function of its own in one translation unit, so that the order in which the
    # two anonymous structs are met depends on the order of the functions
    tu = draw(st.integers(0, M.ntus(m) - 1))
    hosts = []
    for q in range(2):
        h = {"kind": "struct", "name": "nh%d" % q, "members": [{"name": "tag", "type": ["b", "int"], "bits": None}]}
        m["types"].append(h)
        hosts.append(h)
        m["funcs"].append({"name": "use_nh%d" % q, "ret": ["b", "int"], "params": [{"name": "p", "type": ["p", ["n", h["name"]]]}],
                           "variadic": False, "tu": tu, "body": draw(st.integers(0, 3))})
    if aggs and draw(st.booleans()):
        hosts.append(_pick(draw, aggs))
    k = 0
    for pair in range(draw(st.integers(1, 2))):
        cv = _pick(draw, ["c", "c", "v", None])
        for sh in [shapes[i] for i in sorted(set(draw(st.integers(0, 5)) for _ in range(3)))][:2]:
            host = hosts[k % len(hosts)]
            host["members"].append({"anon": "struct", "vname": "nm%d" % k, "vcv": cv,
                                    "members": [{"name": "nm%d_%s" % (k, n), "type": ["b", ty], "bits": None} for n, ty in sh]})
            k += 1


def add_typedefed_anonymous(draw, m, ntu):
    """`typedef struct { ... } X;` and `typedef struct { ... } X, Xb;`: an anonymous struct / union known by one or two typedef
    names only.  Such a type has no tag, so nothing defined before it (or it itself) may refer to it: only structs / unions
    that no earlier type mentions are candidates.  Both names get a user among the exported functions."""
    cands = []
    for i, t in enumerate(m["types"]):
        if t["kind"] not in ("struct", "union") or t.get("tpl") or t.get("cname") or t.get("bases") or t.get("methods"):
            continue
        if any(t["name"] in M.direct_deps(u) for u in m["types"][:i + 1]):
            continue
        if any(t["name"] in [b["name"] for b in u.get("bases", [])] for u in m["types"]):
            continue
        cands.append(i)
    for i in cands[:draw(st.integers(1, 2))]:
        t = m["types"][i]
        t["tdanon"] = True
        users = [t["name"]]
        if draw(st.integers(0, 2)) > 0:
            alias = t["name"] + "b"
            t["tdnames"] = [alias]
            m["types"].insert(i + 1, {"kind": "typedef", "name": alias, "type": ["n", t["name"]], "co": t["name"]})
            users.append(alias)
        if draw(st.booleans()):
            users.reverse()
        for u in users:
            f = {"name": "use_" + u, "ret": ["b", "int"], "params": [{"name": "p", "type": ["p", ["n", u]]}], "variadic": False,
                 "tu": draw(st.integers(0, ntu - 1)), "body": draw(st.integers(0, 3))}
            if m["lang"] == "cxx":
                f["extern_c"] = False
            m["funcs"].append(f)


def add_tu_private_types(draw, m, ntu, cx):
    """Same C-level tag, different definitions in different translation units (legal C), each used by that TU's own
    exported function through a pointer / const pointer / by value / array."""
    ngroups = draw(st.integers(1, 2))
    if draw(st.booleans()):
        m["priv_in_header"] = True       # the variants are selected by a macro inside the shared header
    for g in range(ngroups):
        kind = _weighted(draw, [("struct", 6), ("enum", 2), ("union", 1), ("typedef", 2)])
        cname = "pv%d" % g
        tus = sorted(set([0, 1] + [draw(st.integers(0, ntu - 1)) for _ in range(draw(st.integers(0, 2)))]))
        same_size_bias = draw(st.booleans())
        prefix_pair = kind in ("struct", "union") and draw(st.integers(0, 2)) == 0
        # variants that differ in nothing but the widths of their bit-fields (same names, same types, same size)
        bitfield_pair = kind == "struct" and not prefix_pair and draw(st.integers(0, 3)) == 0
        first_members = None
        for k in tus:
            mname = "%s_tu%d" % (cname, k)
            if kind == "typedef":
                # `typedef PVn_BASE pvn;` on ONE line of the shared header, PVn_BASE defined differently by every translation
                # unit: same name, same file:line:column, different underlying types
                tds = [["b", "int"], ["b", "long"], ["b", "unsigned int"], ["b", "double"], ["p", ["b", "char"]], ["b", "short"],
                       ["p", ["b", "void" if False else "int"]], ["b", "unsigned long"], ["b", "float"]]
                used = [x["type"] for x in m["types"] if x.get("cname") == cname]
                ty = _pick(draw, [x for x in tds if x not in used])
                t = {"kind": "typedef", "name": mname, "cname": cname, "where": "tu%d" % k, "type": ty, "same_line": True}
            elif kind == "enum":
                t = {"kind": "enum", "name": mname, "cname": cname, "where": "tu%d" % k,
                     "enumerators": [["%s_T%d_E%d" % (cname.upper(), k, i), v] for i, (_, v) in
                                     enumerate(enumerators(draw, cname))]}
            else:
                if prefix_pair and first_members is None:
                    # the later variants are proper prefixes of this one, with the same size (the dropped member sits in
                    # what becomes tail padding, or is a smaller member of the union)
                    ms = [{"name": "m0", "type": ["b", _pick(draw, ["long", "double", "unsigned long"])], "bits": None},
                          {"name": "m1", "type": ["b", _pick(draw, ["int", "float", "unsigned int"])], "bits": None},
                          {"name": "m2", "type": ["b", _pick(draw, ["int", "short", "char", "float"])], "bits": None}]
                    first_members = ms
                elif prefix_pair:
                    ms = [dict(x) for x in first_members[:draw(st.integers(1, 2))]]
                    if kind == "struct" and len(ms) == 1:
                        ms = [dict(x) for x in first_members[:2]]
                elif bitfield_pair:
                    bt = first_members[0]["type"] if first_members else ["b", _pick(draw, ["unsigned int", "int", "unsigned short", "unsigned long"])]
                    cap = {"unsigned int": 32, "int": 32, "unsigned short": 16, "unsigned long": 64}[bt[1]]
                    nbf = len(first_members) - 1 if first_members else draw(st.integers(2, 4))
                    ws, left = [], cap
                    for q in range(nbf):
                        w = draw(st.integers(1, max(1, min(left - (nbf - 1 - q), cap // 2))))
                        ws.append(w)
                        left -= w
                    ms = [{"name": "m%d" % q, "type": bt, "bits": ws[q]} for q in range(nbf)]
                    ms.append({"name": "m%d" % nbf, "type": ["b", "int"], "bits": None})
                    if first_members is None:
                        first_members = ms
                elif same_size_bias and first_members is not None and kind == "struct":
                    # same layout, other member types: same name, same size, different type
                    swap = {"int": "float", "float": "unsigned int", "unsigned int": "int", "long": "double", "double": "unsigned long",
                            "unsigned long": "long", "short": "unsigned short", "unsigned short": "short", "char": "unsigned char",
                            "unsigned char": "signed char", "signed char": "char", "long long": "double", "unsigned long long": "long"}
                    ms = []
                    for x in first_members:
                        y = dict(x)
                        if "anon" not in y and y.get("bits") is None and y["type"][0] == "b" and y["type"][1] in swap and draw(st.booleans()):
                            y["type"] = ["b", swap[y["type"][1]]]
                        ms.append(y)
                else:
                    ms = members(draw, cx, "", 1, 4, 0, True, kind == "union")
                    if first_members is None:
                        first_members = ms
                    if draw(st.integers(0, 2)) == 0:
                        ms.append({"name": "next", "type": ["p", ["n", mname]], "bits": None})
                t = {"kind": kind, "name": mname, "cname": cname, "where": "tu%d" % k, "members": ms}
            m["types"].append(t)
            how = draw(st.integers(0, 4))
            base = ["n", mname]
            ty = [["p", base], ["p", ["c", base]], base, ["p", ["p", base]], ["c", ["p", base]]][how]
            f = {"name": "%sfn_tu%d" % (cname, k), "ret": ["b", "int"], "params": [{"name": "p0", "type": ty}],
                 "variadic": False, "tu": k, "body": draw(st.integers(0, 5))}
            if draw(st.integers(0, 3)) == 0:
                f["ret"] = ["p", base]
            m["funcs"].append(f)


def add_symbol_features(draw, m, versions="maybe"):
    """visibility, weak binding, aliases, symbol versions (C only: names are unmangled)."""
    versions = ["VERS_1", "VERS_2"]
    use_versions = versions == "yes" or (versions == "maybe" and draw(st.integers(0, 2)) == 0)
    for n_, (k, i) in enumerate(M.interfaces(m)):
        if n_ == 0:
            continue  # keep one plain exported function: a binary without any public symbol is rejected by the tools
        c = draw(st.integers(0, 19))
        if c == 0:
            i["vis"] = "hidden"
        elif c == 1:
            i["vis"] = "protected"
        elif c in (2, 3):
            i["weak"] = True
        if draw(st.integers(0, 5)) == 0 and i.get("vis", "default") != "hidden" and (not i.get("weak") or draw(st.booleans())):
            n = draw(st.integers(1, 2))
            i["aliases"] = [{"name": "%s_al%d" % (i["name"], j), "weak": k == "fn" and draw(st.booleans())}
                            for j in range(n)]
        if use_versions and i.get("vis", "default") == "default" and draw(st.integers(0, 2 if versions == "maybe" else 1)) == 0:
            i["version"] = _pick(draw, versions)
        if m["lang"] == "cxx" and k == "fn" and (i.get("aliases") or i.get("version")):
            i["extern_c"] = True


@st.composite
def build_config(draw, lang="c", compilers=("gcc", "clang"), kinds=("shared",)):
    cc = _pick(draw, list(compilers))
    return {"cc": cc, "dwarf": _pick(draw, [4, 5]), "kind": _pick(draw, list(kinds)),
            "opt": _pick(draw, ["-O0", "-O0", "-O1"])}
