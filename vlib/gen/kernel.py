"""Synthetic Linux-kernel-like binaries: a relocatable 'module' (.modinfo + .gnu.linkonce.this_module) or a static
non-PIE 'vmlinux' whose exported symbols are marked the way EXPORT_SYMBOL does it (__ksymtab_strings section plus a
__ksymtab_<sym> entry per exported symbol)."""
import os
from . import model as M
from .. import cbuild

PRELUDE = '''struct kernel_symbol { unsigned long value; const char *name; };
#define EXPORT_SYMBOL(sym) \\
  static const char __kstrtab_##sym[] __attribute__((section("__ksymtab_strings"), used)) = #sym; \\
  static const struct kernel_symbol __ksymtab_##sym __attribute__((section("___ksymtab+" #sym), used)) = { (unsigned long) &sym, __kstrtab_##sym }
'''
MODINFO = '''static const char verif_modinfo[] __attribute__((section(".modinfo"), used)) = "license=GPL";
static char verif_this_module[64] __attribute__((section(".gnu.linkonce.this_module"), used));
'''


def files_for(m, exported, kind, shadows=()):
    """shadows: [(name, tu)] -- a *static* function called `name` in translation unit `tu` (another unit than the one that
    defines and possibly exports the global `name`): a local symbol of the same name, which comes first in the symbol table."""
    files = M.render_files(m)
    for k in range(M.ntus(m)):
        f = "tu%d.c" % k
        extra = [PRELUDE]
        for n, tu in shadows:
            if tu == k:
                extra.append("static __attribute__((used, noinline)) long %s(long a, long b) { return a * 3 + b; }" % n)
        if k == 0 and kind == "module":
            extra.append(MODINFO)
        for kk, i in M.interfaces(m):
            if i["tu"] == k and i["name"] in exported:
                extra.append("EXPORT_SYMBOL(%s);" % i["name"])
        files[f] = files[f] + "\n" + "\n".join(extra) + "\n"
    return files


def build_kernel_object(m, cfg, d, exported, kind="module", shadows=()):
    c = dict(cfg)
    if kind == "module":
        c["kind"] = "rel"
        return cbuild.compile_model(m, c, d, out="mod.ko", files=files_for(m, exported, kind, shadows))
    c["kind"] = "exe"
    return cbuild.compile_model(m, c, d, out="vmlinux", files=files_for(m, exported, kind, shadows), extra_ld=["-static", "-nostdlib"])
