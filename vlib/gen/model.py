"""Program model: plain JSON-able data describing a small C / C++ library,
its renderer to source files, and the questions the oracles ask of it.

Type expressions (lists, JSON friendly):
  ["b", "unsigned int"]            builtin
  ["void"]
  ["n", "st3"]                     reference to a named type (struct/union/enum/typedef/class)
  ["p", T]                         pointer to T
  ["r", T]                         C++ lvalue reference to T;  ["r", T, "rvalue"]  rvalue reference (T&&)
  ["c", T] / ["v", T]              const / volatile T   (never on arrays or function types)
  ["a", T, n]                      array of n T
  ["fn", RET, [T...], variadic]    function type (only ever used under a pointer)

Named types (model["types"], in definition order):
  {"kind":"struct"|"union"|"class", "name":..., "members":[M...], "where": "pub"|"priv"|"tuK",
   "bases":[{"name":..,"virtual":bool,"access":..}], "methods":[...], "ns": None|"nsname"}
  M = {"name":..., "type":T, "bits":None|int, "access":..}  |  {"anon":"struct"|"union","members":[M...]}
  {"kind":"enum", "name":..., "enumerators":[[name, value|None]...], "scoped":False, "underlying":None}
  {"kind":"typedef", "name":..., "type":T}
  {"kind":"opaque", "name":...}                       (struct declared, never defined)
"""
import copy, json, hashlib

INT_BUILTINS = ["char", "signed char", "unsigned char", "short", "unsigned short", "int",
                "unsigned int", "long", "unsigned long", "long long", "unsigned long long"]
FLOAT_BUILTINS = ["float", "double", "long double"]
BUILTINS = INT_BUILTINS + FLOAT_BUILTINS + ["_Bool"]
BUILTIN_SIZE = {"char": 1, "signed char": 1, "unsigned char": 1, "short": 2, "unsigned short": 2,
                "int": 4, "unsigned int": 4, "long": 8, "unsigned long": 8, "long long": 8,
                "unsigned long long": 8, "float": 4, "double": 8, "long double": 16, "_Bool": 1}


def canon(obj):
    return json.dumps(obj, sort_keys=True, separators=(",", ":"))


def sha(obj):
    return hashlib.sha1(canon(obj).encode()).hexdigest()[:16]


# --------------------------------------------------------------------------
# queries

def type_index(model):
    return {t["name"]: t for t in model["types"]}


def strip_cv(t):
    while t[0] in ("c", "v"):
        t = t[1]
    return t


def named_in_expr(t, out=None):
    """Names of named types syntactically occurring in a type expression."""
    if out is None:
        out = []
    k = t[0]
    if k == "n":
        out.append(t[1])
    elif k in ("p", "r", "c", "v", "a"):
        named_in_expr(t[1], out)
    elif k == "fn":
        named_in_expr(t[1], out)
        for p in t[2]:
            named_in_expr(p, out)
    return out


def _members_flat(members):
    for m in members:
        if "anon" in m:
            for x in _members_flat(m["members"]):
                yield x
        else:
            yield m


def direct_deps(tdef):
    """Named types a named-type definition refers to (any way)."""
    out = []
    k = tdef["kind"]
    if k in ("struct", "union", "class"):
        for m in _members_flat(tdef["members"]):
            named_in_expr(m["type"], out)
        for b in tdef.get("bases", []):
            out.append(b["name"])
        for me in tdef.get("methods", []):
            named_in_expr(me["ret"], out)
            for p in me["params"]:
                named_in_expr(p["type"], out)
    elif k == "typedef":
        named_in_expr(tdef["type"], out)
    return out


def reach_from_names(model, names):
    idx = type_index(model)
    seen = set()
    todo = list(names)
    while todo:
        n = todo.pop()
        if n in seen or n not in idx:
            continue
        seen.add(n)
        todo.extend(direct_deps(idx[n]))
    return seen


def iface_types(iface):
    out = []
    if "params" in iface:
        named_in_expr(iface["ret"], out)
        for p in iface["params"]:
            named_in_expr(p["type"], out)
    else:
        named_in_expr(iface["type"], out)
    return out


def iface_reach(model, iface):
    return reach_from_names(model, iface_types(iface))


def interfaces(model):
    return [("fn", f) for f in model["funcs"]] + [("var", v) for v in model["vars"]]


def exported(model):
    """(kind, iface) that end up as public defined symbols."""
    return [(k, i) for k, i in interfaces(model) if i.get("vis", "default") in ("default", "protected")
            and not i.get("static")]


def affected_by_type(model, tname):
    """Exported interfaces from whose signature the named type is reachable."""
    out = [i["name"] for k, i in exported(model) if tname in iface_reach(model, i)]
    # C++: the out-of-line member functions of a class are exported interfaces too (implicit `this` parameter), and so are
    # its static data members
    for t in model["types"]:
        if (t.get("methods") or any(m.get("static") for m in t.get("members", []))) \
                and tname in reach_from_names(model, [t["name"]]):
            out += ["%s::%s" % (t["name"], me["name"]) for me in t.get("methods", []) if not me.get("inline")]
            out += ["%s::%s" % (t["name"], m["name"]) for m in t.get("members", []) if m.get("static")]
    return out


def reachable_types(model):
    s = set()
    for k, i in exported(model):
        s |= iface_reach(model, i)
    return s


# --------------------------------------------------------------------------
# rendering

def _tag(model, name, cxx):
    t = type_index(model)[name]
    k = t["kind"]
    name = t.get("cname", name)   # TU-private types: several model types share one C-level name
    q = name
    if cxx:
        if t.get("ns"):
            q = t["ns"] + "::" + name
        return q
    if t.get("tdanon"):
        return name               # typedef struct { ... } name;  -- there is no tag
    if k in ("struct", "opaque"):
        return "struct " + name
    if k == "union":
        return "union " + name
    if k == "enum":
        return "enum " + name
    return name


def decl(model, t, inner="", cxx=False):
    """C declarator: render type t applied to the declarator text `inner`."""
    k = t[0]
    if k == "b":
        b = t[1]
        if cxx and b == "_Bool":
            b = "bool"
        return b + (" " + inner if inner else "")
    if k == "void":
        return "void" + (" " + inner if inner else "")
    if k == "n":
        return _tag(model, t[1], cxx) + (" " + inner if inner else "")
    if k in ("c", "v"):
        q = "const" if k == "c" else "volatile"
        sub = t[1]
        if sub[0] in ("p",):
            return decl(model, sub, q + (" " + inner if inner else ""), cxx)
        # qualifier on a base / named / further-qualified type: prefix
        return q + " " + decl(model, sub, inner, cxx)
    if k in ("p", "r"):
        sub = t[1]
        s = ("*" if k == "p" else ("&&" if len(t) > 2 else "&")) + inner
        if strip_cv(sub)[0] in ("a", "fn") or sub[0] in ("a", "fn"):
            s = "(" + s + ")"
        return decl(model, sub, s, cxx)
    if k == "a":
        n = t[2]
        return decl(model, t[1], inner + "[%s]" % ("" if n is None else n), cxx)
    if k == "fn":
        ps = ", ".join(decl(model, p, "", cxx) for p in t[2])
        if t[3]:
            ps = (ps + ", ..." if ps else "...")
        if not ps:
            ps = "void" if not cxx else ""
        return decl(model, t[1], inner + "(" + ps + ")", cxx)
    raise ValueError(t)


def _render_members(model, members, cxx, ind):
    out = []
    cur_access = None
    for m in members:
        if cxx and m.get("access") and m["access"] != cur_access:
            cur_access = m["access"]
            out.append(ind[:-2] + cur_access + ":")
        if "anon" in m:
            # "vname": a *named* member whose type is an anonymous struct written in place, optionally cv-qualified
            # (`const struct { int w; int h; } dims;`); without it, a C11 anonymous member
            q = {"c": "const ", "v": "volatile "}.get(m.get("vcv"), "")
            out.append(ind + q + m["anon"] + " {")
            out.extend(_render_members(model, m["members"], cxx, ind + "  "))
            out.append(ind + "}" + (" " + m["vname"] if m.get("vname") else "") + ";")
        else:
            d = decl(model, m["type"], m["name"], cxx)
            if m.get("bits") is not None:
                d += " : %d" % m["bits"]
            if m.get("static"):
                d = "static " + d
            out.append(ind + d + ";")
    return out


def render_typedef(model, t, cxx):
    k = t["kind"]
    out = []
    if k in ("struct", "union", "class"):
        kw = k if (cxx or k != "class") else "struct"
        head = ("template<> " if t.get("tpl") else "") + kw + " " + t.get("cname", t["name"])
        if t.get("bases"):
            head += " : " + ", ".join(
                (b.get("access", "public") + " " + ("virtual " if b.get("virtual") else "") + _tag(model, b["name"], True))
                for b in t["bases"])
        if t.get("tdanon"):
            head = "typedef " + kw
        out.append(head + " {")
        if cxx and k == "class":
            out.append("public:")
        out.extend(_render_members(model, t["members"], cxx, "  "))
        for me in t.get("methods", []):
            ps = ", ".join(decl(model, p["type"], p["name"], cxx) for p in me["params"])
            pre = me.get("access", "public") + ": "
            if me.get("virtual"):
                pre += "virtual "
            if me.get("static"):
                pre += "static "
            out.append("  " + pre + decl(model, me["ret"], me["name"] + "(" + ps + ")", cxx)
                       + (" const" if me.get("const") else "") + (" { return 0; }" if me.get("inline") else ";"))
        out.append("} %s;" % ", ".join([t["name"]] + list(t.get("tdnames", []))) if t.get("tdanon") else "};")
    elif k == "enum":
        head = "enum " + ("class " if t.get("scoped") else "") + t.get("cname", t["name"])
        if t.get("underlying"):
            head += " : " + t["underlying"]
        es = []
        for n, v in t["enumerators"]:
            es.append("  " + n + ("" if v is None else " = %s" % _lit(v)))
        out.append(head + " {\n" + ",\n".join(es) + "\n};")
    elif k == "typedef":
        if not t.get("co"):       # "co": declared in the same declaration as the anonymous struct it names (see tdnames)
            out.append("typedef " + decl(model, t["type"], t.get("cname", t["name"]), cxx) + ";")
    elif k == "opaque":
        out.append("struct " + t["name"] + ";")
    return out


def _lit(v):
    if v > 2147483647:
        return "%dLL" % v if v <= 9223372036854775807 else "%dULL" % v
    if v < -2147483647:
        return "(%dLL)" % v
    return "(%d)" % v if v < 0 else str(v)


def _ns_wrap(t, lines):
    if t.get("ns"):
        return ["namespace " + t["ns"] + " {"] + lines + ["}"]
    return lines


def render_header(model, where=None, guard="TYPES_H", blank=0):
    """Header with the named types whose 'where' is `where` (None = all non-TU-private)."""
    cxx = model["lang"] == "cxx"
    out = ["#ifndef " + guard, "#define " + guard]
    out += [""] * blank
    sel = [t for t in model["types"] if (t.get("where", "pub") == where if where is not None
                                          else not t.get("where", "pub").startswith("tu"))]
    for t in sel:
        if t["kind"] in ("struct", "union", "class", "opaque") and not t.get("tdanon"):
            kw = "struct" if t["kind"] == "opaque" or (t["kind"] == "class" and not cxx) else t["kind"]
            if t.get("tpl"):
                out += _ns_wrap(t, ["template<typename T> %s %s;" % (kw, t["name"].split("<")[0]),
                                    "template<> %s %s;" % (kw, t["name"])])
            else:
                out += _ns_wrap(t, [kw + " " + t["name"] + ";"])
    for t in sel:
        if t["kind"] != "opaque":
            out += _ns_wrap(t, render_typedef(model, t, cxx))
    if where is None:
        seen = set()
        for t in model["types"]:
            if t.get("same_line") and t["cname"] not in seen:
                seen.add(t["cname"])
                out.append("#ifdef %s_BASE" % t["cname"].upper())
                out.append("typedef %s_BASE %s;" % (t["cname"].upper(), t["cname"]))
                out.append("#endif")
    if where is None and model.get("priv_in_header"):
        # the same-named TU-private types live in the header, one definition per translation unit selected by a macro the
        # unit defines before including the header: "defined in the same source file", differently
        for t in model["types"]:
            w = t.get("where", "pub")
            if w.startswith("tu") and not t.get("same_line"):
                out.append("#ifdef IN_%s" % w.upper())
                out += render_typedef(model, t, cxx)
                out.append("#endif")
    out.append("#endif")
    return "\n".join(out) + "\n"


def fn_proto(model, f, cxx, name=None):
    ps = ", ".join(decl(model, p["type"], p["name"], cxx) for p in f["params"])
    if f.get("variadic"):
        ps = ps + ", ..." if ps else "..."
    if not ps and not cxx:
        ps = "void"
    return decl(model, f["ret"], (name or f["name"]) + "(" + ps + ")", cxx)


def _attrs(i):
    a = []
    vis = i.get("vis", "default")
    if vis != "default":
        a.append('visibility("%s")' % vis)
    if i.get("weak"):
        a.append("weak")
    return ("__attribute__((" + ", ".join(a) + ")) ") if a else ""


def render_function(model, f, cxx):
    out = []
    body_salt = f.get("body", 0)
    pre = "static " if f.get("static") else _attrs(f)
    if cxx and f.get("extern_c"):
        pre = 'extern "C" ' + pre
    if f.get("ifunc"):
        # GNU indirect function: the symbol has type STT_GNU_IFUNC and is bound to whatever the resolver returns
        out.append("static void *%s_resolver(void) { return 0; }" % f["name"])
        out.append(pre + fn_proto(model, f, cxx) + ' __attribute__((ifunc("%s_resolver")));' % f["name"])
        return out
    out.append(pre + fn_proto(model, f, cxx))
    out.append("{")
    for k in range(body_salt % 3):
        out.append("  volatile int loc%d = %d; (void) loc%d;" % (k, body_salt + k, k))
    rt = strip_cv(f["ret"])
    if rt[0] == "void":
        pass
    elif cxx:
        # never executed; avoids needing a default constructor
        tt = strip_cv(rt[1]) if rt[0] == "r" else rt
        out.append("  " + decl(model, ["p", tt], "ret_ptr", cxx) + " = 0;")
        out.append("  return static_cast<%s>(*ret_ptr);" % decl(model, rt, "", cxx) if rt[0] == "r" and len(rt) > 2
                   else "  return *ret_ptr;")
    else:
        out.append("  static " + decl(model, rt, "ret_obj", cxx) + ";")
        out.append("  return ret_obj;")
    out.append("}")
    for al in f.get("aliases", []):
        w = "weak, " if al.get("weak") else ""
        proto = fn_proto(model, f, cxx, name=al["name"])
        out.append(("extern \"C\" " if cxx and f.get("extern_c") else "") + proto
                   + ' __attribute__((%salias("%s")));' % (w, f.get("mangled", f["name"])))
    return out


def _is_const_top(t, model=None):
    """Top-level const, also when it comes through a typedef or sits on the elements of an array."""
    idx = type_index(model) if model else {}
    while True:
        if t[0] == "c":
            return True
        if t[0] == "v":
            t = t[1]
        elif t[0] == "a":
            t = t[1]
        elif t[0] == "n" and idx.get(t[1], {}).get("kind") == "typedef":
            t = idx[t[1]]["type"]
        else:
            return False


def render_variable(model, v, cxx):
    pre = "static " if v.get("static") else _attrs(v)
    if v.get("tls"):
        pre += "__thread "
    d = decl(model, v["type"], v["name"], cxx)
    init = ""
    if cxx:
        init = " = {}"
        if _is_const_top(v["type"], model) and not v.get("static"):
            pre = "extern " + pre
    elif _is_const_top(v["type"], model) or v.get("init"):
        st = strip_cv(v["type"])
        init = " = {0}" if not (cxx and st[0] == "n" and type_index(model)[st[1]]["kind"] == "enum") else " = {}"
        if cxx and not v.get("static"):
            pre = "extern " + pre
    out = [pre + d + init + ";"]
    for al in v.get("aliases", []):
        out.append("extern " + decl(model, v["type"], al["name"], cxx)
                   + ' __attribute__((alias("%s")));' % v["name"])
    return out


def render_tu(model, k, headers=("types.h",), order=None, blank=0, comments=False):
    cxx = model["lang"] == "cxx"
    out = []
    if model.get("priv_in_header"):
        out.append("#define IN_TU%d" % k)
    for t in model["types"]:
        if t.get("same_line") and t.get("where") == "tu%d" % k:
            # one typedef line in the shared header, another underlying type in every translation unit
            out.append("#define %s_BASE %s" % (t["cname"].upper(), decl(model, t["type"], "", cxx)))
    for h in headers:
        out.append('#include "%s"' % h)
    out += [""] * blank
    # TU-private types
    for t in model["types"]:
        if t.get("where") == "tu%d" % k and not model.get("priv_in_header") and not t.get("same_line"):
            out += render_typedef(model, t, cxx)
    items = [("fn", f) for f in model["funcs"] if f["tu"] == k] + \
            [("var", v) for v in model["vars"] if v["tu"] == k] + \
            [("fn", f) for f in model.get("statics", []) if f["tu"] == k and "params" in f] + \
            [("var", v) for v in model.get("statics", []) if v["tu"] == k and "params" not in v]
    if order:
        items = [items[i] for i in order if i < len(items)] + [it for j, it in enumerate(items) if j not in order]
    if model.get("reverse_defs"):
        items = items[::-1]
    for kind, i in items:
        if comments:
            out.append("/* %s */" % i["name"])
        out += render_function(model, i, cxx) if kind == "fn" else render_variable(model, i, cxx)
        out.append("")
    if cxx:
        # out-of-line definitions of class methods (key functions) live in TU 0
        if k == 0:
            for t in model["types"]:
                for me in t.get("methods", []):
                    if me.get("inline"):
                        continue
                    ps = ", ".join(decl(model, p["type"], p["name"], True) for p in me["params"])
                    q = (t["ns"] + "::" if t.get("ns") else "") + t["name"] + "::" + me["name"]
                    out.append(decl(model, me["ret"], q + "(" + ps + ")", True) + (" const" if me.get("const") else ""))
                    rt = strip_cv(me["ret"])
                    if rt[0] == "void":
                        out.append("{ }")
                    else:
                        out.append("{ " + decl(model, ["p", rt if rt[0] != "r" else strip_cv(rt[1])], "ret_ptr", True)
                                   + " = 0; return %s; }" % ("static_cast<%s>(*ret_ptr)" % decl(model, rt, "", True)
                                                             if rt[0] == "r" and len(rt) > 2 else "*ret_ptr"))
                for m in t.get("members", []):
                    if m.get("static"):
                        q = (t["ns"] + "::" if t.get("ns") else "") + t["name"] + "::" + m["name"]
                        out.append(decl(model, m["type"], q, True) + ";")
    return "\n".join(out) + "\n"


def ntus(model):
    n = 1
    for i in model["funcs"] + model["vars"] + model.get("statics", []):
        n = max(n, i["tu"] + 1)
    return n


def render_files(model):
    """{relative path: text} for the default single-header layout."""
    ext = ".cc" if model["lang"] == "cxx" else ".c"
    files = {"types.h": render_header(model, blank=model.get("hdr_blank", 0))}
    for k in range(ntus(model)):
        files["tu%d%s" % (k, ext)] = render_tu(model, k, blank=model.get("tu_blank", 0),
                                               comments=model.get("comments", False))
    return files


def version_script(model):
    """GNU ld version script text, or None when no interface is versioned."""
    vers = {}
    for k, i in interfaces(model):
        if i.get("version"):
            vers.setdefault(i["version"], []).append(i.get("mangled", i["name"]))
    if not vers:
        return None
    out = []
    prev = None
    for v in sorted(vers):
        out.append("%s { global: %s }%s;" % (v, " ".join(n + ";" for n in sorted(vers[v])), (" " + prev) if prev else ""))
        prev = v
    return "\n".join(out) + "\n"
