"""Mutation catalogs.  Every mutation returns (new_model, info) where info carries
the *model-derived* expectation: kind, the named type or interface touched, the
set of exported interfaces that must be affected, names removed/added."""
import copy, json
from hypothesis import strategies as st
from . import model as M
from .strategies import _pick, _weighted, Ctx, texpr, paramtype, rettype


def _ctx_for(m):
    # TU-private types may only be used inside their own translation unit: hide them from newly drawn type expressions
    kinds = ["private" if t.get("where", "pub").startswith("tu") else t["kind"] for t in m["types"]]
    names = [t["name"] for t in m["types"]]
    cx = Ctx(kinds, names, m["lang"] == "cxx")
    cx.defined = len(kinds)
    return cx


def enum_values(t):
    vals = []
    cur = -1
    for n, v in t["enumerators"]:
        cur = cur + 1 if v is None else v
        vals.append(cur)
    return vals


def enum_is_64(t):
    vals = enum_values(t)
    if any(v < 0 for v in vals):
        # a negative enumerator makes the underlying type signed: 2^31 and above then needs 64 bits
        return any(v > 0x7FFFFFFF or v < -0x80000000 for v in vals)
    return any(v > 0xFFFFFFFF for v in vals)


def _resolve(m, t):
    """Strip cv-qualifiers and typedefs."""
    idx = M.type_index(m)
    while True:
        t = M.strip_cv(t)
        if t[0] == "n" and idx.get(t[1], {}).get("kind") == "typedef":
            t = idx[t[1]]["type"]
            continue
        return t


def _different_builtin(draw, old):
    cands = [b for b in M.BUILTINS if b != old]
    return ["b", _pick(draw, cands)]


def usage_depth(m, tname):
    """'direct' if some exported interface uses the type by value as parameter/return/variable type, else 'indirect'."""
    for k, i in M.exported(m):
        ts = [i["ret"]] + [p["type"] for p in i["params"]] if k == "fn" else [i["type"]]
        for t in ts:
            t = M.strip_cv(t)
            if t == ["n", tname]:
                return "direct"
    return "indirect"


# --------------------------------------------------------------------------
# breaking

def _reachable_of_kind(m, kinds):
    r = M.reachable_types(m)
    return [t for t in m["types"] if t["name"] in r and t["kind"] in kinds]


def _named_members(t):
    return [i for i, mm in enumerate(t["members"]) if "anon" not in mm and not mm.get("static")]


AGG = ("struct", "class")
BREAKING = ["insert_member", "remove_member", "reorder_members", "member_type", "array_bound", "enumerator_value",
            "enum_size", "add_param", "remove_param", "param_type", "return_type", "remove_fn", "remove_var",
            "var_type", "add_base", "remove_base", "add_virtual", "remove_virtual"]


def _base_candidates(m, t):
    """Complete structs/classes defined before t that are not yet among its bases."""
    out = []
    have = set(b["name"] for b in t.get("bases", []))
    for x in m["types"]:
        if x["name"] == t["name"]:
            break
        if x["kind"] in ("struct", "class") and x["name"] not in have and not x.get("where", "pub").startswith("tu"):
            out.append(x["name"])
    return out


def applicable_breaking(m):
    out = []
    # unions are left out on purpose: a union change that keeps the union's size is layout-preserving and
    # libabigail documents it as harmless (HARMLESS_UNION_CHANGE_CATEGORY), so it is not an "ABI-incompatible edit"
    aggs = _reachable_of_kind(m, AGG)
    if aggs:
        out += ["insert_member", "member_type"]
        if any(len(_named_members(t)) >= 2 and len(t["members"]) >= 2 for t in aggs):
            out += ["remove_member"]
        if any(len(_named_members(t)) >= 2 for t in aggs if t["kind"] != "union"):
            out += ["reorder_members"]
        if any(mm["type"][0] == "a" for t in aggs for mm in t["members"] if "anon" not in mm):
            out += ["array_bound"]
    enums = _reachable_of_kind(m, ("enum",))
    if enums:
        out += ["enumerator_value"]
        if any(not enum_is_64(t) and not t.get("underlying") for t in enums):
            out += ["enum_size"]
    fns = [f for k, f in M.exported(m) if k == "fn"]
    vars_ = [v for k, v in M.exported(m) if k == "var"]
    if fns:
        out += ["add_param", "return_type"] + (["param_type"] if any(f["params"] for f in fns) else [])
        if any(f["params"] for f in fns):
            out += ["remove_param"]
        if len(fns) + len(vars_) >= 2:
            out += ["remove_fn"]
    if vars_:
        out += ["var_type"]
        if len(fns) + len(vars_) >= 2:
            out += ["remove_var"]
    if m["lang"] == "cxx":
        cls = _reachable_of_kind(m, ("class",))
        if cls:
            out += ["add_virtual"]
            if any(any(me.get("virtual") for me in t.get("methods", [])) for t in cls):
                out += ["remove_virtual"]
            if any(t.get("bases") for t in cls):
                out += ["remove_base"]
            if any(_base_candidates(m, t) for t in cls):
                out += ["add_base"]
    return sorted(set(out))


def breaking(draw, m, only=None, type_names=None):
    """Apply one breaking mutation drawn from the applicable catalog entries."""
    m2 = copy.deepcopy(m)
    kinds = applicable_breaking(m)
    if only:
        kinds = [k for k in kinds if k in only]
    if not kinds:
        return None, None
    # Hypothesis favours small draws (index 0); offset the index by a value derived from the model so that every catalog
    # entry gets its share, and give the C++-only entries (rarely applicable) a second ticket
    kinds = kinds + [k for k in kinds if k in ("add_base", "remove_base", "add_virtual", "remove_virtual", "array_bound",
                                               "enum_size", "reorder_members")]
    kind = kinds[(draw(st.integers(0, 997)) + len(M.canon(m))) % len(kinds)]
    cx = _ctx_for(m2)
    idx = M.type_index(m2)
    info = {"kind": kind, "removed": [], "affected": []}
    if kind in ("insert_member", "remove_member", "reorder_members", "member_type", "array_bound"):
        aggs = _reachable_of_kind(m2, AGG)
        if type_names is not None:
            aggs = [t for t in aggs if t["name"] in type_names]
        if kind == "remove_member":
            aggs = [t for t in aggs if len(_named_members(t)) >= 2 and len(t["members"]) >= 2]
        elif kind == "reorder_members":
            aggs = [t for t in aggs if len(_named_members(t)) >= 2 and t["kind"] != "union"]
        elif kind == "array_bound":
            aggs = [t for t in aggs if any(mm["type"][0] == "a" for mm in t["members"] if "anon" not in mm)]
        if not aggs:
            return None, None
        t = _pick(draw, aggs)
        info["type"] = t["name"]
        info["depth"] = usage_depth(m, t["name"])
        # by-value types available to a member of t: those defined before t
        pos_t = [x["name"] for x in m2["types"]].index(t["name"])
        cxm = _ctx_for(m2)
        cxm.defined = pos_t
        if kind == "insert_member":
            pos = draw(st.integers(0, len(t["members"])))
            nm = {"name": "ins%d" % len(t["members"]), "type": texpr(draw, cxm, 1, allow_array=True), "bits": None}
            if t["members"] and t["members"][0].get("access"):
                nm["access"] = t["members"][min(pos, len(t["members"]) - 1)].get("access", "public")
            t["members"].insert(pos, nm)
            info["pos"] = pos
        elif kind == "remove_member":
            i = _pick(draw, _named_members(t))
            info["member"] = t["members"][i]["name"]
            del t["members"][i]
        elif kind == "reorder_members":
            nmi = _named_members(t)
            a = draw(st.integers(0, len(nmi) - 2))
            i, j = nmi[a], nmi[a + 1]
            t["members"][i], t["members"][j] = t["members"][j], t["members"][i]
            if t["members"][i].get("access") != t["members"][j].get("access"):
                acc = t["members"][i].get("access")
                t["members"][i]["access"], t["members"][j]["access"] = t["members"][j].get("access"), acc
            info["members"] = [t["members"][i]["name"], t["members"][j]["name"]]
        elif kind == "member_type":
            i = _pick(draw, _named_members(t)) if _named_members(t) else None
            if i is None:
                return None, None
            mm = t["members"][i]
            old = mm["type"]
            if mm.get("bits") is not None:
                # keep it a valid bit-field: switch between int kinds wide enough
                cands = [b for b in ("unsigned int", "int", "unsigned long", "long") if b != old[1]
                         and M.BUILTIN_SIZE[b] * 8 > mm["bits"]]
                mm["type"] = ["b", _pick(draw, cands)]
            else:
                so = M.strip_cv(old)
                if so[0] == "b":
                    mm["type"] = _different_builtin(draw, so[1])
                elif so[0] == "p":
                    mm["type"] = ["b", _pick(draw, ["char", "short", "int", "float"])]
                else:
                    mm["type"] = ["p", ["b", _pick(draw, M.BUILTINS)]] if so[0] != "a" else ["b", "int"]
            info["member"] = mm["name"]
        elif kind == "array_bound":
            cands = [i for i in _named_members(t) if t["members"][i]["type"][0] == "a"]
            i = _pick(draw, cands)
            mm = t["members"][i]
            how = draw(st.integers(0, 3))
            ty = mm["type"]
            if how == 1:
                # one more (trailing) dimension of at least 2: T[n] -> T[n][k]
                mm["type"] = ["a", ["a", ty[1], draw(st.integers(2, 3))], ty[2]] if ty[1][0] != "a" else \
                    ["a", ["a", ty[1][1], ty[1][2] + 1], ty[2]]
            elif how == 2 and ty[1][0] == "a" and ty[1][2] >= 2:
                # the trailing dimension goes away, the leading one stays: T[n][k] -> T[n]
                mm["type"] = ["a", ty[1][1], ty[2]]
            elif how == 3 and ty[1][0] == "a":
                mm["type"] = ["a", ["a", ty[1][1], ty[1][2] + draw(st.integers(1, 2))], ty[2]]
            else:
                mm["type"] = ["a", ty[1], ty[2] + draw(st.integers(1, 3))]
            info["member"] = mm["name"]
            info["how"] = ["outer_bound", "add_dimension", "drop_dimension", "inner_bound"][how]
        info["affected"] = M.affected_by_type(m, t["name"])
    elif kind in ("enumerator_value", "enum_size"):
        enums = _reachable_of_kind(m2, ("enum",))
        if kind == "enum_size":
            enums = [t for t in enums if not enum_is_64(t) and not t.get("underlying")]
        t = _pick(draw, enums)
        info["type"] = t["name"]
        info["depth"] = usage_depth(m, t["name"])
        if kind == "enumerator_value":
            i = draw(st.integers(0, len(t["enumerators"]) - 1))
            old = enum_values(t)[i]
            big = enum_is_64(t)
            new = old + draw(st.integers(1, 50))
            # keep the following implicit enumerators' values by making them explicit
            vals = enum_values(t)
            for j in range(len(t["enumerators"])):
                t["enumerators"][j][1] = vals[j]
            t["enumerators"][i][1] = new
            info["enumerator"] = t["enumerators"][i][0]
        else:
            t["enumerators"].append([t["name"].upper() + "_BIG", 2 ** 33 + draw(st.integers(0, 100))])
        info["affected"] = M.affected_by_type(m, t["name"])
    elif kind in ("add_param", "remove_param", "param_type", "return_type", "remove_fn"):
        fns = [f for k, f in M.exported(m2) if k == "fn"]
        if kind in ("remove_param", "param_type"):
            fns = [f for f in fns if f["params"]]
        f = _pick(draw, fns)
        info["iface"] = f["name"]
        info["depth"] = "signature"
        if kind == "add_param":
            f["params"].append({"name": "np%d" % len(f["params"]), "type": paramtype(draw, cx)})
        elif kind == "remove_param":
            i = draw(st.integers(0, len(f["params"]) - 1))
            del f["params"][i]
            if not f["params"]:
                f["variadic"] = False
        elif kind == "param_type":
            i = draw(st.integers(0, len(f["params"]) - 1))
            old = M.strip_cv(f["params"][i]["type"])
            if old[0] == "b":
                f["params"][i]["type"] = _different_builtin(draw, old[1])
            elif old[0] in ("p", "r"):
                f["params"][i]["type"] = ["b", _pick(draw, ["char", "int", "double", "unsigned short"])]
            else:
                f["params"][i]["type"] = ["p", ["b", _pick(draw, ["char", "int", "double"])]]
        elif kind == "return_type":
            old = M.strip_cv(f["ret"])
            if old[0] == "void":
                f["ret"] = ["b", _pick(draw, M.BUILTINS)]
            elif old[0] == "b":
                f["ret"] = _different_builtin(draw, old[1])
            else:
                # not "int": an enum (or a typedef of an integer) replaced by the compatible integer type is a change
                # libabigail documents as harmless, not an ABI-incompatible edit
                base = _resolve(m2, old)
                f["ret"] = ["b", _pick(draw, [b for b in ("char", "double", "long double", "short")
                                             if base != ["b", b]])]
        elif kind == "remove_fn":
            m2["funcs"] = [x for x in m2["funcs"] if x["name"] != f["name"]]
            info["removed"] = [f["name"]] + [a["name"] for a in f.get("aliases", [])]
        info["affected"] = [f["name"]]
    elif kind in ("remove_var", "var_type"):
        vs = [v for k, v in M.exported(m2) if k == "var"]
        v = _pick(draw, vs)
        info["iface"] = v["name"]
        info["depth"] = "signature"
        if kind == "remove_var":
            m2["vars"] = [x for x in m2["vars"] if x["name"] != v["name"]]
            info["removed"] = [v["name"]] + [a["name"] for a in v.get("aliases", [])]
        else:
            old = M.strip_cv(v["type"])
            if old[0] == "b":
                v["type"] = _different_builtin(draw, old[1])
            elif old[0] == "p":
                v["type"] = ["b", _pick(draw, ["char", "int", "double"])]
            else:
                v["type"] = ["p", ["b", _pick(draw, ["char", "int", "double"])]]
        info["affected"] = [v["name"]]
    elif kind in ("add_virtual", "remove_virtual", "remove_base", "add_base"):
        cls = _reachable_of_kind(m2, ("class",))
        if kind == "add_base":
            cls = [t for t in cls if _base_candidates(m2, t)]
        if kind == "remove_virtual":
            cls = [t for t in cls if any(me.get("virtual") for me in t.get("methods", []))]
        if kind == "remove_base":
            cls = [t for t in cls if t.get("bases")]
        t = _pick(draw, cls)
        info["type"] = t["name"]
        info["depth"] = usage_depth(m, t["name"])
        if kind == "add_virtual":
            t.setdefault("methods", []).append({"name": "nvm%d" % len(t.get("methods", [])), "ret": ["b", "int"],
                                                "params": [], "virtual": True, "access": "public"})
        elif kind == "remove_virtual":
            i = _pick(draw, [i for i, me in enumerate(t["methods"]) if me.get("virtual")])
            info["method"] = t["methods"][i]["name"]
            del t["methods"][i]
        elif kind == "add_base":
            b = _pick(draw, _base_candidates(m2, t))
            t.setdefault("bases", []).append({"name": b, "virtual": False, "access": "public"})
            info["base"] = b
        else:
            i = draw(st.integers(0, len(t["bases"]) - 1))
            info["base"] = t["bases"][i]["name"]
            del t["bases"][i]
        info["affected"] = M.affected_by_type(m, t["name"])
    return m2, info


# --------------------------------------------------------------------------
# neutral

NEUTRAL = ["bodies", "rename_params", "reverse_defs", "move_tu", "blank_lines", "add_static", "remove_static",
           "unused_type", "comments", "link_order"]


def neutral(draw, m, k=None):
    m2 = copy.deepcopy(m)
    cx = _ctx_for(m2)
    n = k or draw(st.integers(1, 4))
    applied = []
    for _ in range(n):
        kinds = list(NEUTRAL)
        if not m2.get("statics"):
            kinds.remove("remove_static")
        kind = _pick(draw, kinds)
        applied.append(kind)
        if kind == "bodies":
            for f in m2["funcs"]:
                f["body"] = f.get("body", 0) + draw(st.integers(1, 7))
        elif kind == "rename_params":
            for f in m2["funcs"]:
                for p in f["params"]:
                    p["name"] = "q" + p["name"]
        elif kind == "reverse_defs":
            m2["reverse_defs"] = not m2.get("reverse_defs", False)
        elif kind == "move_tu":
            priv = set(t["name"] for t in m2["types"] if t.get("where", "pub").startswith("tu"))
            ifs = [i for i in m2["funcs"] + m2["vars"] if not (M.iface_reach(m2, i) & priv)]
            if not ifs:
                continue
            i = _pick(draw, ifs)
            i["tu"] = (i["tu"] + 1) % (M.ntus(m2) + draw(st.integers(0, 1)))
        elif kind == "blank_lines":
            m2["hdr_blank"] = m2.get("hdr_blank", 0) + draw(st.integers(1, 9))
            m2["tu_blank"] = m2.get("tu_blank", 0) + draw(st.integers(0, 5))
        elif kind == "add_static":
            j = len(m2.get("statics", []))
            if draw(st.booleans()):
                m2.setdefault("statics", []).append(
                    {"name": "nsfn%d" % j, "ret": rettype(draw, cx), "params": [{"name": "p0", "type": paramtype(draw, cx)}],
                     "variadic": False, "tu": draw(st.integers(0, M.ntus(m2) - 1)), "static": True, "body": 1})
            else:
                m2.setdefault("statics", []).append(
                    {"name": "nsvar%d" % j, "type": texpr(draw, cx, 0, allow_array=True),
                     "tu": draw(st.integers(0, M.ntus(m2) - 1)), "static": True})
            from .strategies import sanitize_static
            sanitize_static(m2, m2["statics"][-1])
        elif kind == "remove_static":
            del m2["statics"][draw(st.integers(0, len(m2["statics"]) - 1))]
        elif kind == "unused_type":
            j = len(m2["types"])
            cx2 = _ctx_for(m2)
            from .strategies import members
            m2["types"].append({"kind": "struct", "name": "unused%d" % j,
                                "members": members(draw, cx2, "", 1, 3, 0, True, False)})
        elif kind == "comments":
            m2["comments"] = not m2.get("comments", False)
        elif kind == "link_order":
            m2["tu_order_reversed"] = not m2.get("tu_order_reversed", False)
    return m2, {"kinds": applied}


# --------------------------------------------------------------------------
# harmless (documented as filtered by default, shown with --harmless)

def applicable_harmless(m):
    out = []
    enums = [t for t in _reachable_of_kind(m, ("enum",))]
    if enums:
        out.append("append_enumerator")
    fns = [f for k, f in M.exported(m) if k == "fn" and f["params"]]
    if any(any(M.strip_cv(p["type"])[0] in ("b", "p", "n") for p in f["params"]) for f in fns):
        out.append("param_cv")
    tds = [t for t in _reachable_of_kind(m, ("typedef",))]
    if tds:
        out.append("typedef_rename")
    if m["lang"] == "cxx":
        cls = _reachable_of_kind(m, ("class", "struct"))
        if any(any(mm.get("access") for mm in t["members"]) for t in cls):
            out.append("member_access")
        if [t for t in cls if t["kind"] == "class"]:
            out.append("add_nonvirtual_method")
    return out


def harmless(draw, m, only=None):
    m2 = copy.deepcopy(m)
    kinds = applicable_harmless(m)
    if only:
        kinds = [k for k in kinds if k in only]
    if not kinds:
        return None, None
    kind = _pick(draw, kinds)
    info = {"kind": kind}
    if kind == "append_enumerator":
        t = _pick(draw, _reachable_of_kind(m2, ("enum",)))
        vals = enum_values(t)
        t["enumerators"].append([t["name"].upper() + "_NEW", max(vals) + 1 if max(vals) < 2 ** 31 - 2 else None])
        if t["enumerators"][-1][1] is None:
            return None, None
        info["type"] = t["name"]
        info["affected"] = M.affected_by_type(m, t["name"])
    elif kind == "param_cv":
        fns = [f for k, f in M.exported(m2) if k == "fn" and f["params"]]
        f = _pick(draw, fns)
        i = draw(st.integers(0, len(f["params"]) - 1))
        t = f["params"][i]["type"]
        if t[0] == "c":
            f["params"][i]["type"] = t[1]
        elif t[0] in ("b", "p", "n"):
            f["params"][i]["type"] = ["c", t]
        else:
            return None, None
        info["iface"] = f["name"]
        info["affected"] = [f["name"]]
    elif kind == "typedef_rename":
        t = _pick(draw, _reachable_of_kind(m2, ("typedef",)))
        old, new = t["name"], t["name"] + "r"
        info["type"] = old
        info["new_name"] = new
        info["affected"] = M.affected_by_type(m, old)
        m2 = json.loads(json.dumps(m2).replace(json.dumps(["n", old]), json.dumps(["n", new])))
        for x in m2["types"]:
            if x["name"] == old:
                x["name"] = new
    elif kind == "member_access":
        cls = [t for t in _reachable_of_kind(m2, ("class", "struct")) if any(mm.get("access") for mm in t["members"])]
        t = _pick(draw, cls)
        cands = [mm for mm in t["members"] if mm.get("access")]
        mm = _pick(draw, cands)
        mm["access"] = _pick(draw, [a for a in ("public", "protected", "private") if a != mm["access"]])
        info["type"] = t["name"]
        info["affected"] = M.affected_by_type(m, t["name"])
    elif kind == "add_nonvirtual_method":
        t = _pick(draw, [t for t in _reachable_of_kind(m2, ("class",))])
        # defined inside the class (inline): no new exported symbol, only a new member function of the class
        t.setdefault("methods", []).append({"name": "nnv%d" % len(t.get("methods", [])), "ret": ["b", "int"],
                                            "params": [{"name": "a", "type": ["b", "int"]}], "access": "public",
                                            "inline": True})
        info["type"] = t["name"]
        info["affected"] = M.affected_by_type(m, t["name"])
    return m2, info
