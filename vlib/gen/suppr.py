"""Suppression-specification generators (INI text, doc/manuals/libabigail-concepts.rst grammar)."""
from hypothesis import strategies as st
from . import model as M
from .strategies import _pick, _weighted


def section(kind, props):
    out = ["[%s]" % kind]
    for k, v in props:
        out.append("  %s = %s" % (k, v) if v is not None else "  %s" % k)
    return "\n".join(out) + "\n"


def _rx_escape(s):
    return "".join("\\" + c if c in ".^$*+?()[]{}|\\" else c for c in s)


def fn_or_var_section(draw, kind, name, exported_names=None):
    """A [suppress_function]/[suppress_variable] section matching the interface called `name` (C name == symbol name)."""
    how = _pick(draw, ["name", "name_regexp", "symbol_name", "symbol_name_regexp"])
    if how == "name":
        props = [("name", name)]
    elif how == "name_regexp":
        props = [("name_regexp", "^" + _rx_escape(name) + "$")]
    elif how == "symbol_name":
        props = [("symbol_name", name)]
    else:
        props = [("symbol_name_regexp", "^" + _rx_escape(name) + "$")]
    return section("suppress_function" if kind == "fn" else "suppress_variable", props), how


def type_section(draw, tname, extra=()):
    how = _pick(draw, ["name", "name_regexp"])
    props = [("name", tname)] if how == "name" else [("name_regexp", "^" + _rx_escape(tname) + "$")]
    return section("suppress_type", props + list(extra))


def targeting(draw, m, m2, infos):
    """1-3 sections that name interfaces / types touched by the changes described in infos (best effort: the text is
    always a valid specification; whether it hides something is for the tool to decide)."""
    idx1 = dict((i["name"], k) for k, i in M.interfaces(m))
    idx2 = dict((i["name"], k) for k, i in M.interfaces(m2))
    cands = []
    for info in infos:
        for n in info.get("affected", []) + info.get("removed", [])[:1] + info.get("added", [])[:1]:
            k = idx1.get(n) or idx2.get(n)
            if k:
                cands.append(("iface", k, n))
        if info.get("type"):
            cands.append(("type", None, info["type"]))
    if not cands:
        return None
    out = []
    for _ in range(draw(st.integers(1, 3))):
        what, k, n = _pick(draw, cands)
        if what == "iface":
            out.append(fn_or_var_section(draw, k, n)[0])
        else:
            t = M.type_index(m).get(n) or M.type_index(m2).get(n)
            out.append(type_section(draw, t.get("cname", n) if t else n))
    return "\n".join(out)
