"""Suppression-specification generators (INI text, doc/manuals/libabigail-concepts.rst grammar)."""
from hypothesis import strategies as st
from . import model as M
from .strategies import _pick, _weighted


def section(kind, props):
    out = ["[%s]" % kind]
    for k, v in props:
        out.append("  %s = %s" % (k, v) if v is not None else "  %s" % k)
    return "\n".join(out) + "\n"


def _rx_escape(s):
    return "".join("\\" + c if c in ".^$*+?()[]{}|\\" else c for c in s)


def fn_or_var_section(draw, kind, name, exported_names=None):
    """A [suppress_function]/[suppress_variable] section matching the interface called `name` (C name == symbol name)."""
    how = _pick(draw, ["name", "name_regexp", "symbol_name", "symbol_name_regexp"])
    if how == "name":
        props = [("name", name)]
    elif how == "name_regexp":
        props = [("name_regexp", "^" + _rx_escape(name) + "$")]
    elif how == "symbol_name":
        props = [("symbol_name", name)]
    else:
        props = [("symbol_name_regexp", "^" + _rx_escape(name) + "$")]
    return section("suppress_function" if kind == "fn" else "suppress_variable", props), how


def type_section(draw, tname, extra=()):
    how = _pick(draw, ["name", "name_regexp"])
    props = [("name", tname)] if how == "name" else [("name_regexp", "^" + _rx_escape(tname) + "$")]
    return section("suppress_type", props + list(extra))


def targeting(draw, m, m2, infos):
    """1-3 sections that name interfaces / types touched by the changes described in infos (best effort: the text is
    always a valid specification; whether it hides something is for the tool to decide)."""
    idx1 = dict((i["name"], k) for k, i in M.interfaces(m))
    idx2 = dict((i["name"], k) for k, i in M.interfaces(m2))
    cands = []
    for info in infos:
        for n in info.get("affected", []) + info.get("removed", [])[:1] + info.get("added", [])[:1]:
            k = idx1.get(n) or idx2.get(n)
            if k:
                cands.append(("iface", k, n))
        if info.get("type"):
            cands.append(("type", None, info["type"]))
    if not cands:
        return None
    out = []
    for _ in range(draw(st.integers(1, 3))):
        what, k, n = _pick(draw, cands)
        if what == "iface":
            out.append(fn_or_var_section(draw, k, n)[0])
        else:
            t = M.type_index(m).get(n) or M.type_index(m2).get(n)
            out.append(type_section(draw, t.get("cname", n) if t else n))
    return "\n".join(out)


# --------------------------------------------------------------------------
# C22: sections that cannot match anything in either binary.  Every section carries at least one "killer" property,
# unsatisfiable by construction of the generated programs: all their identifiers come from the generator's small
# alphabet (fnN, varN, stN, ...), files are called lib.so, sonames are absent, symbol versions are VERS_1/VERS_2.

NEVER = "zzq_never_%d"


def _killers(draw, kind, m):
    k = []
    n = NEVER % draw(st.integers(0, 99))
    if kind in ("suppress_function", "suppress_variable"):
        k = [[("name", n)], [("name_regexp", "^zzq_.*$")], [("symbol_name", n)], [("symbol_name_regexp", "^zzq_[a-z]+$")],
             [("symbol_version", "NOPE_9")], [("symbol_version_regexp", "^NOPE_")], [("name_not_regexp", ".*")],
             [("file_name_regexp", "^zzq_.*")], [("file_name_not_regexp", ".*")], [("soname_regexp", "^zzq")],
             [("soname_not_regexp", ".*")]]
        if kind == "suppress_function":
            k += [[("return_type_name", n)], [("parameter", "'0 " + n)], [("return_type_regexp", "^zzq_")]]
        else:
            k += [[("type_name", n)], [("type_name_regexp", "^zzq_")]]
    elif kind == "suppress_type":
        k = [[("name", n)], [("name_regexp", "^zzq_.*$")], [("name_not_regexp", ".*")], [("file_name_regexp", "^zzq_.*")],
             [("file_name_not_regexp", ".*")], [("soname_regexp", "^zzq")], [("soname_not_regexp", ".*")]]
        # a name that exists, with a kind it does not have
        wrong = {"struct": ["enum", "typedef", "union"], "union": ["enum", "typedef", "struct"],
                 "enum": ["struct", "union", "typedef"], "typedef": ["enum", "union"], "class": ["enum", "typedef", "union"]}
        for t in m["types"]:
            if t["kind"] in wrong and not t.get("where", "pub").startswith("tu"):
                names = set(x.get("cname", x["name"]) for x in m["types"])
                if sum(1 for x in m["types"] if x.get("cname", x["name"]) == t["name"]) == 1:
                    k.append([("name", t["name"]), ("type_kind", _pick(draw, wrong[t["kind"]]))])
    else:   # suppress_file
        k = [[("file_name_regexp", "^zzq_.*")], [("file_name_not_regexp", ".*")], [("soname_regexp", "^zzq")],
             [("soname_not_regexp", ".*")]]
    return k


def _fillers(draw, kind, m, m2):
    """Properties that can only narrow a section further (AND semantics)."""
    out = []
    names = [i["name"] for mm in (m, m2) for kk, i in M.interfaces(mm)]
    tnames = [t.get("cname", t["name"]) for t in m["types"]]
    opts = [("label", "lbl%d" % draw(st.integers(0, 9)))]
    if kind == "suppress_function":
        opts += [("change_kind", _pick(draw, ["function-subtype-change", "added-function", "deleted-function", "all"])),
                 ("allow_other_aliases", _pick(draw, ["yes", "no"]))]
        if names:
            opts += [("name_regexp", "^" + _pick(draw, names)[:2] + ".*"), ("symbol_name", _pick(draw, names))]
    elif kind == "suppress_variable":
        opts += [("change_kind", _pick(draw, ["variable-subtype-change", "added-variable", "deleted-variable", "all"]))]
        if names:
            opts += [("symbol_name_regexp", "^" + _pick(draw, names)[:3])]
    elif kind == "suppress_type":
        opts += [("type_kind", _pick(draw, ["struct", "enum", "union", "typedef", "class"])),
                 ("accessed_through", _pick(draw, ["direct", "pointer", "reference", "reference-or-pointer"])),
                 ("has_data_member_inserted_at", _pick(draw, ["end", "0", "offset_of(m0)", "offset_after(m1)"])),
                 ("source_location_not_regexp", "^zzq"), ("changed_enumerators", "ZZQ_E0"),
                 ("has_data_member_inserted_between", "{8, end}")]
        if tnames:
            opts += [("name_regexp", "^" + _pick(draw, tnames)[:2])]
    for _ in range(draw(st.integers(0, 3))):
        out.append(_pick(draw, opts))
    return out


def unsatisfiable(draw, m, m2):
    secs = []
    kinds = []
    for _ in range(draw(st.integers(1, 5))):
        kind = _pick(draw, ["suppress_function", "suppress_variable", "suppress_type", "suppress_type", "suppress_file"])
        killer = _pick(draw, _killers(draw, kind, m))
        fill = _fillers(draw, kind, m, m2) if kind != "suppress_file" else []
        # a property may appear once, and a property and its _regexp / _not_regexp variants are alternatives for the tool
        # (whichever it looks at first wins, the manual does not say which): never combine members of one family
        fam = lambda k_: k_.replace("_not_regexp", "").replace("_regexp", "")
        keys = set(fam(k) for k, v in killer)
        props = [p for p in fill if fam(p[0]) not in keys]
        seen = set()
        props = [p for p in props if not (fam(p[0]) in seen or seen.add(fam(p[0])))]
        pos = draw(st.integers(0, len(props)))
        props = props[:pos] + killer + props[pos:]
        if draw(st.integers(0, 9)) == 0 and kind in ("suppress_function", "suppress_variable", "suppress_type"):
            props.append(("drop", "yes"))
        secs.append(section(kind, props))
        kinds.append(kind + ":" + killer[0][0])
    return "\n".join(secs), kinds
