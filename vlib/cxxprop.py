"""Driver for properties decided by a C++ harness (rapidcheck / exhaustive enumeration).

A harness writes a stats JSON: {evaluations, nontrivial, exhaustive, classes{}, failcount{cls:n},
witness{cls: text}, samples[]}.  Failure classes listed as known findings are passed with --ignore so the
search continues behind them; any other class is a violation whose replay file holds the (shrunk) witness."""
import os, sys, json, time, subprocess, collections, shutil
from concurrent.futures import ThreadPoolExecutor
from . import build, runner


def run(pid, tier, mod):
    t0 = time.time()
    seedv = int(os.environ.get("VERIF_SEED", "1") or "1") or 1
    exe = build.ensure_harness(mod.HARNESS, getattr(mod, "VARIANT", "plain"), mod.SOURCES,
                               extra_flags=getattr(mod, "EXTRA_FLAGS", ()), extra_ld=getattr(mod, "EXTRA_LD", ("-lrapidcheck",)))
    known = runner.load_known(pid)
    ignore = ",".join(sorted(known))
    rdir = os.path.join(build.BUILD, "run", pid)
    shutil.rmtree(rdir, ignore_errors=True)
    os.makedirs(rdir)
    jobs = mod.jobs(tier, seedv)   # list of (args, env)

    def one(ij):
        i, (args, env) = ij
        out = os.path.join(rdir, "s%d.json" % i)
        e = dict(os.environ)
        e.update(env)
        r = subprocess.run([exe] + args + ["--out", out] + (["--ignore", ignore] if ignore else []),
                           stdout=subprocess.PIPE, stderr=subprocess.STDOUT, env=e, timeout=getattr(mod, "TIMEOUT", 7200))
        try:
            st = json.load(open(out))
        except Exception:
            st = None
        return args, r.returncode, r.stdout.decode(errors="replace"), st

    with ThreadPoolExecutor(16) as ex:
        results = list(ex.map(one, enumerate(jobs)))
    merged = {"evaluations": 0, "nontrivial": set(), "classes": collections.Counter(), "samples": [],
              "known_hits": collections.Counter(), "excluded": {}, "inconclusive": 0, "extra": collections.Counter()}
    nontrivial = 0
    failures = {}
    harness_errors = []
    exhaustive_all = True
    for args, rc, out, st in results:
        if st is None:
            # a crash of the harness itself (signal, sanitizer, assertion in the library) is a failure of the property
            # only if the module says so; otherwise it is a harness error
            key = getattr(mod, "crash_key", lambda rc, out: None)(rc, out)
            import re
            mcc = re.search(r"CRASH-CASE sig=(\d+) (.*)", out)
            if mcc:
                cls = "crash:signal%s" % mcc.group(1)
                if cls in known:
                    merged["known_hits"][cls] += 1
                else:
                    failures.setdefault(cls, ({"witness": mcc.group(2).strip(), "harness": mod.HARNESS},
                                              {"class": cls, "witness": mcc.group(2).strip(), "args": args}))
            elif key:
                if key in known:
                    merged["known_hits"][key] += 1
                else:
                    failures.setdefault(key, ({"args": args, "output": out[-3000:]}, {"rc": rc, "output": out[-3000:]}))
            else:
                harness_errors.append("harness %s rc=%s produced no stats:\n%s" % (args, rc, out[-2000:]))
            continue
        merged["evaluations"] += st["evaluations"]
        nontrivial += st["nontrivial"]
        merged["classes"].update(st.get("classes", {}))
        merged["samples"] += st.get("samples", [])[:2]
        exhaustive_all = exhaustive_all and st.get("exhaustive", False)
        for cls, n in st.get("failcount", {}).items():
            if cls in known:
                merged["known_hits"][cls] += n
            else:
                w = st.get("witness", {}).get(cls, "")
                old = failures.get(cls)
                if old is None or len(w) < len(old[0]["witness"]):
                    failures[cls] = ({"witness": w, "harness": mod.HARNESS}, {"class": cls, "count": n, "witness": w,
                                                                             "args": args})
        if rc != 0 and not st.get("failcount"):
            harness_errors.append("harness %s rc=%d: %s" % (args, rc, out[-1500:]))
    # replay tier: regression corpus (must pass) -- corpus/<pid>/*.json with {"case": {"witness": ...}}
    cdir = os.path.join(build.VERIF, "corpus", pid)
    if os.path.isdir(cdir):
        for fn in sorted(os.listdir(cdir)):
            if not fn.endswith(".json"):
                continue
            rec = json.load(open(os.path.join(cdir, fn)))
            r = subprocess.run([exe, "--replay", rec["case"]["witness"]], stdout=subprocess.PIPE, stderr=subprocess.STDOUT)
            merged["evaluations"] += 1
            merged["classes"]["corpus-replay"] += 1
            if r.returncode != 0:
                o = r.stdout.decode(errors="replace")
                cls = "crash:signal" if "FAIL " not in o else o[o.index("FAIL ") + 5:].split("\n")[0].strip()
                if cls in known:
                    merged["known_hits"][cls] += 1
                else:
                    failures.setdefault(cls, (rec["case"], {"class": cls, "corpus_file": fn, "output": o[-1500:]}))
    # confirm each failure 3x through --replay
    confirmed = {}
    for cls, (case, detail) in failures.items():
        if "witness" not in case:
            confirmed[cls] = (case, detail)
            continue
        ok = 0
        for i in range(3):
            r = subprocess.run([exe, "--replay", case["witness"]], stdout=subprocess.PIPE, stderr=subprocess.STDOUT)
            o = r.stdout.decode(errors="replace")
            if r.returncode != 0 and (("FAIL " + cls) in o or (cls.startswith("crash:") and (r.returncode < 0 or "CRASH-CASE" in o))):
                ok += 1
        if ok == 3:
            confirmed[cls] = (case, detail)
        else:
            merged["extra"]["flaky"] += 1
    # nontrivial: harnesses count distinct cases themselves (enumeration never repeats; random repeats are negligible and
    # are reported as such in RULE)
    merged["nontrivial"] = set(str(i) for i in range(min(nontrivial, 10 ** 6)))
    merged["known_hits"] = dict(merged["known_hits"])
    merged["extra"] = dict(merged["extra"])
    merged["extra"]["nontrivial_counted_by_harness"] = nontrivial
    merged["exhaustive"] = exhaustive_all
    rc = runner.finish(pid, tier, seedv, mod, merged, confirmed, t0, harness_errors)
    # distinct_nontrivial was capped for memory; restore the measured count
    p = os.path.join(build.VERIF, "evidence", pid + ".json")
    ev = json.load(open(p))
    ev["coverage"]["distinct_nontrivial"] = nontrivial
    json.dump(ev, open(p, "w"), indent=1)
    return rc


def replay(exe_name, variant, sources, witness, extra_ld=("-lrapidcheck",)):
    exe = build.ensure_harness(exe_name, variant, sources, extra_ld=extra_ld)
    r = subprocess.run([exe, "--replay", witness], stdout=subprocess.PIPE, stderr=subprocess.STDOUT)
    return r.returncode, r.stdout.decode(errors="replace")
