#!/bin/bash
# usage: confirm_seed.sh <worktree> <seed-dir> <dest-name>
# Confirms a seeded change: applies patch in the (already built) scratch worktree, rebuilds, runs the suite,
# runs demo.sh against the patched worktree (must fail) and against /repo's own build (must pass).
wt=$1; sd=$2; name=$3
PASS="runtestabicompat runtestabidiff runtestabidiffexit runtestcanonicalizetypes.sh runtestcorediff runtestcxxcompat runtestdefaultsupprspy3.sh runtestdiffdwarf runtestdiffdwarfabixml runtestdiffpkg runtestelfhelpers runtestini runtestkmiwhitelist runtestlookupsyms runtestreadwrite runtestslowselfcompare.sh runtestsvg runtestsymtab runtestsymtabreader runtesttoolsutils"
cd "$wt" || exit 2
git checkout -- . && git apply "$sd/patch.diff" || { echo "CONFIRM $name: patch does not apply"; exit 1; }
make -j8 >/dev/null 2>&1 || { echo "CONFIRM $name: build failed"; exit 1; }
make -k check -j8 > /tmp/confirm-$name.log 2>&1
missing=""
for t in $PASS; do grep -q "^PASS: $t" /tmp/confirm-$name.log || missing="$missing $t"; done
bash "$sd/demo.sh" "$wt" > /tmp/confirm-$name.demo-patched.log 2>&1; rp=$?
bash "$sd/demo.sh" /repo > /tmp/confirm-$name.demo-clean.log 2>&1; rc=$?
echo "CONFIRM $name: tests_missing=[$missing] demo_patched_rc=$rp demo_clean_rc=$rc"
if [ -z "$missing" ] && [ $rp -ne 0 ] && [ $rc -eq 0 ]; then
  mkdir -p /verif/seeded/$name
  cp "$sd/patch.diff" "$sd/demo.sh" /verif/seeded/$name/
  python3 - "$sd/meta.json" /verif/seeded/$name/meta.json "$rp" <<'PY'
import json,sys
try: m=json.load(open(sys.argv[1]))
except Exception: m={}
m["confirmed_by_me"]={"ran":"tools/confirm_seed.sh: git apply patch.diff in scratch worktree; make -j8; make -k check -j8 (all 20 baseline tests PASS); demo.sh <patched worktree> -> rc %s; demo.sh /repo (unpatched build) -> rc 0"%sys.argv[3]}
json.dump(m,open(sys.argv[2],"w"),indent=1)
PY
  echo "CONFIRMED $name"
fi
rm -f /tmp/confirm-$name.log
