#!/usr/bin/env python3
"""Prints the markdown tables of DESIGN.md section 0 from the registry, known_findings.json and seeded/*/meta.json."""
import json, os, sys, glob, importlib
V = os.path.dirname(os.path.dirname(os.path.abspath(__file__)))
sys.path.insert(0, V)
from vlib import registry
kf = json.load(open(os.path.join(V, "known_findings.json")))
res = {}
p = os.path.join(V, "seeded", "RESULTS.json")
if os.path.exists(p):
    res = json.load(open(p))
print("| id | engine | quick N | known findings | fixed defects | seeded changes (caught by this check) |")
print("|---|---|---|---|---|---|")
for pid in sorted(registry.REG):
    r = registry.REG[pid]
    try:
        mod = importlib.import_module("vlib.props." + pid)
        n = getattr(mod, "N", {}).get("quick") or getattr(mod, "COUNTS", {}).get("quick") or \
            ("%ds fuzz" % mod.SECONDS["quick"] if hasattr(mod, "SECONDS") else "-")
    except Exception:
        n = "?"
    known = [e["key"] for e in kf if e["property"] == pid and e["status"] == "known"]
    fixed = [e.get("commit", "") for e in kf if e["property"] == pid and e["status"] == "fixed"]
    seeds = ["%s%s" % (s, "" if v.get("caught") else " (MISSED)") for s, v in sorted(res.items()) if v.get("check") == pid]
    print("| %s | %s | %s | %d | %s | %s |" % (pid, r["engine"], n, len(known), ", ".join(sorted(set(fixed))) or "-", ", ".join(seeds) or "-"))


def known_table():
    out = ["| property | key | what fails | witness |", "|---|---|---|---|"]
    for e in kf:
        if e["status"] == "known":
            out.append("| %s | `%s` | %s | %s |" % (e["property"], e["key"], e["what"].replace("|", "\\|").replace("\n", " "),
                                                    str(e.get("witness", "")).replace("|", "\\|")))
    return out


def splice(path):
    """Replace the two generated tables of DESIGN.md in place (the table that follows each header line)."""
    import io, contextlib
    lines = open(path).read().split("\n")

    def replace_table(header_prefix, new_rows):
        i = next(k for k, l in enumerate(lines) if l.startswith(header_prefix))
        j = i
        while j < len(lines) and lines[j].startswith("|"):
            j += 1
        lines[i:j] = new_rows

    buf = io.StringIO()
    # the first table is what the module prints at import time; rebuild it here
    rows = ["| id | engine | quick N | known findings | fixed defects | seeded changes (caught by this check) |", "|---|---|---|---|---|---|"]
    for pid in sorted(registry.REG):
        r = registry.REG[pid]
        try:
            mod = importlib.import_module("vlib.props." + pid)
            n = getattr(mod, "N", {}).get("quick") or getattr(mod, "COUNTS", {}).get("quick") or \
                ("%ds fuzz" % mod.SECONDS["quick"] if hasattr(mod, "SECONDS") else "-")
        except Exception:
            n = "?"
        if r.get("not_applicable"):
            continue
        known = [e["key"] for e in kf if e["property"] == pid and e["status"] == "known"]
        fixed = [e.get("commit", "") for e in kf if e["property"] == pid and e["status"] == "fixed"]
        seeds = ["%s%s" % (s, "" if v.get("caught") else " (MISSED)") for s, v in sorted(res.items()) if v.get("check") == pid]
        rows.append("| %s | %s | %s | %d | %s | %s |" % (pid, r["engine"], n, len(known), ", ".join(sorted(set(fixed))) or "-", ", ".join(seeds) or "-"))
    replace_table("| id | engine | quick N |", rows)
    replace_table("| property | key | what fails | witness |", known_table())
    open(path, "w").write("\n".join(lines))


if len(sys.argv) > 1 and sys.argv[1] == "--splice":
    splice(os.path.join(V, "DESIGN.md"))
