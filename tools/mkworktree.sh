#!/bin/bash
# usage: mkworktree.sh <dir>   -- scratch git worktree of /repo, configured and built in-tree
set -e
d=$1
[ -n "$d" ] || { echo "usage: $0 <dir>"; exit 2; }
git -C /repo worktree add --detach "$d" HEAD >/dev/null
cd /repo
# copy the git-ignored autotools products needed to configure (no objects)
for f in configure aclocal.m4 config.h.in build-aux ltmain.sh install-sh; do
  [ -e "$f" ] && cp -a "$f" "$d/" 
done
find . -name Makefile.in -not -path './.git/*' | while read f; do cp -a "$f" "$d/$f"; done
cd "$d"
./configure --quiet >/dev/null 2>&1 || ./configure >/dev/null
make -j16 >/dev/null 2>&1 || make -j16 2>&1 | tail -20
echo "worktree ready: $d"
