#!/usr/bin/env python3
"""Development tool (not a registered check): repeated fuzz rounds for a libFuzzer property; every new failure key found
in a round is added to a scratch ignore list so that the next round searches behind it.  Prints the keys and keeps the
smallest witness of each under /tmp/saturate/<pid>/.  The keys are then reviewed by hand, reproduced against the real
tools, and entered in known_findings.json (never written by a check at run time)."""
import os, sys, json, shutil, glob, subprocess
sys.path.insert(0, os.path.dirname(os.path.dirname(os.path.abspath(__file__))))
from vlib import runner, fuzzprop
import importlib

pid, rounds, secs = sys.argv[1], int(sys.argv[2]), int(sys.argv[3])
mod = importlib.import_module("vlib.props." + pid)
out = "/tmp/saturate/" + pid
os.makedirs(out, exist_ok=True)
extra = {}
orig = runner.load_known
def load_known(p):
    k = dict(orig(p))
    for key in extra:
        k.setdefault(key, {"what": "(scratch)", "key": key})
    return k
runner.load_known = load_known
fuzzprop.runner.load_known = load_known
os.environ["VERIF_FUZZ_SECS"] = str(secs)
for r in range(rounds):
    os.environ["VERIF_SEED"] = str(100 + r)
    rc = fuzzprop.run(pid, "quick", mod)
    new = 0
    for f in glob.glob("/verif/build/replays/%s/*/case.json" % pid):
        d = json.load(open(f))
        k = d["key"]
        if k in extra or k in orig(pid):
            continue
        new += 1
        extra[k] = 1
        dst = os.path.join(out, "%03d" % len(extra))
        shutil.copy(os.path.join(os.path.dirname(f), "input"), dst)
        json.dump({"key": k, "stderr": d["detail"]["stderr"][-600:]}, open(dst + ".json", "w"), indent=1)
    print("ROUND %d: %d new keys, %d total" % (r, new, len(extra)), flush=True)
    shutil.rmtree("/verif/build/replays/%s" % pid, ignore_errors=True)
    if new == 0 and r >= 2:
        break
print(json.dumps(sorted(extra), indent=1))
