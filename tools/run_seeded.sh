#!/bin/bash
# usage: run_seeded.sh <seeded/NAME> <Cxx> [tier]   -- apply the seeded change to /repo, run one check, undo the change.
# Prints "SEED <name> <Cxx>: CAUGHT|MISSED (rc=..)".  Never leaves /repo modified.
sd=$(cd "$1" && pwd); pid=$2; tier=${3:-quick}
cd /verif
if ! git -C /repo diff --quiet; then echo "refusing: /repo has uncommitted changes"; exit 2; fi
git -C /repo apply "$sd/patch.diff" || { echo "patch does not apply"; exit 2; }
trap 'git -C /repo checkout -- . ' EXIT
out=$(./check "$pid" "$tier" 2>/tmp/run_seeded.err); rc=$?
echo "$out" | grep -E "^(VIOLATION|KNOWN-FINDING)" | cut -c1-300
if [ $rc -eq 1 ] && echo "$out" | grep -q "^VIOLATION property=$pid"; then v=CAUGHT; elif [ $rc -eq 0 ]; then v=MISSED; else v="ERROR"; tail -5 /tmp/run_seeded.err; fi
echo "SEED $(basename $sd) $pid: $v (rc=$rc)"
# evidence written while /repo was patched is not evidence about /repo
git -C /verif checkout -- evidence/$pid.json 2>/dev/null
exit 0
