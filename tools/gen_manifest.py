#!/usr/bin/env python3
"""Regenerates /verif/MANIFEST.json from vlib/registry.py (checks whose module exists are claimed)."""
import json, os, sys
sys.path.insert(0, os.path.dirname(os.path.dirname(os.path.abspath(__file__))))
from vlib import registry

V = os.path.dirname(os.path.dirname(os.path.abspath(__file__)))
props = [json.loads(l) for l in open(os.path.join(V, "properties.jsonl"))]
checks, na = [], []
for p in props:
    pid = p["id"]
    r = registry.REG.get(pid)
    if r and os.path.exists(os.path.join(V, "vlib", "props", pid + ".py")) and not r.get("not_applicable"):
        checks.append({
            "property_id": pid,
            "quick_cmd": "./check %s quick" % pid,
            "thorough_cmd": "./check %s thorough" % pid,
            "evidence_file": "/verif/evidence/%s.json" % pid,
            "replay_cmd_template": "./check --replay {path}",
            "engine": r["engine"],
            "level_claimed": {"category": r.get("level", "exploration"), "text": r["text"], "design_ref": "DESIGN.md section 5, " + pid},
            "level_note": r["note"],
            "technique": r["technique"],
        })
    else:
        na.append({"property_id": pid, "reason": (r or {}).get("not_applicable") or "no check registered for this property yet (design in DESIGN.md section 5)"})
man = {
    "version": 1,
    "setup_cmd": "python3-vt -m vlib.setup",
    "hooks": {"guard": "LIBABIGAIL_VERIF",
              "enable": "every check compiles /repo's working tree out-of-tree into /verif/build/<variant>/ with -DLIBABIGAIL_VERIF (vlib/build.py)",
              "baseline_off_cmd": "make -C /repo -k check",
              "source_commits": registry.HOOK_COMMITS, "add_only": True},
    "engines": registry.ENGINES,
    "checks": checks,
    "not_applicable": na,
    "notes": "All checks: ./check <id> <quick|thorough>; replay: ./check --replay <dir>. Known findings: known_findings.json. See DESIGN.md.",
}
json.dump(man, open(os.path.join(V, "MANIFEST.json"), "w"), indent=1)
print("claimed %d, not claimed %d" % (len(checks), len(na)))
